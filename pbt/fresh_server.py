"""
A pristine prtpy process that evaluates call histories for property C15.

Started as a brand-new interpreter (`python -m pbt.fresh_server`): it imports prtpy through pbt.sut and never calls it.
For every request it fork()s children that inherit this untouched post-import state:

  * one child runs the whole history - all calls in order, sharing the input objects that the history says are shared;
  * one child per call runs that call alone, on freshly built arguments (the reference: "the same call in a fresh state").

Requests and responses are JSON lines on stdin / (the original) stdout; fd 1 is pointed at /dev/null afterwards so that
solver chatter cannot corrupt the protocol.  A child that does not finish within CHILD_SECONDS is killed by its own alarm
and reported as a timeout (inconclusive), never as a verdict.
"""
import json
import os
import signal
import sys

CHILD_SECONDS = 60


def fork_eval(fn):
    r, w = os.pipe()
    pid = os.fork()
    if pid == 0:
        code = 0
        try:
            os.close(r)
            signal.signal(signal.SIGALRM, signal.SIG_DFL)
            signal.alarm(CHILD_SECONDS)
            data = json.dumps(fn()).encode()
            while data:
                n = os.write(w, data)
                data = data[n:]
        except BaseException as e:          # report, never propagate into the server loop
            try:
                os.write(w, json.dumps({"child_error": f"{type(e).__name__}: {e}"[:300]}).encode())
            except Exception:
                code = 1
        finally:
            os._exit(code)
    os.close(w)
    chunks = []
    while True:
        b = os.read(r, 65536)
        if not b:
            break
        chunks.append(b)
    os.close(r)
    _, status = os.waitpid(pid, 0)
    raw = b"".join(chunks)
    if not raw:
        return {"child_error": "timeout" if os.WIFSIGNALED(status) and os.WTERMSIG(status) == signal.SIGALRM else f"died:{status}"}
    try:
        return json.loads(raw)
    except ValueError:
        return {"child_error": "garbled"}


def build_input(sut, spec):
    return sut.present(spec["values"], spec.get("pres", "list"), spec.get("nseed", 0), spec.get("den", 1))


def one_call(sut, call, presented):
    before = sut.snapshot(presented)
    param = call["param"]
    den = call.get("den", 1)
    if den != 1:
        param = param / den
    if call.get("ticks") is not None:
        o = sut.call_with_ticks(call["alg"], param, presented, call.get("outputtype", "Partition"), call.get("opts"), call["ticks"])
    else:
        o = sut.call(call["alg"], param, presented, call.get("outputtype", "Partition"), call.get("opts"))
    d = o.describe()
    d["args_untouched"] = sut.snapshot(presented) == before
    return d


def handle(sut, req):
    inputs, calls = req["inputs"], req["calls"]

    def change(built, c):
        spec = inputs[c["mutate"]]
        sut.set_value(built, c["index"], c["value"], spec.get("den", 1))

    def whole_history():
        built = [build_input(sut, s) for s in inputs]
        out = []
        for c in calls:
            if "mutate" in c:           # the caller changes a value of an input object it goes on using
                change(built[c["mutate"]], c)
                out.append({"mutated": True, "args_untouched": True})
            else:
                out.append(one_call(sut, c, built[c["input"]]))
        return out

    def alone(i):
        def run():                      # same object construction and the same caller-side changes, but no earlier CALL
            j = calls[i]["input"]
            built = build_input(sut, inputs[j])
            for c in calls[:i]:
                if c.get("mutate") == j:
                    change(built, c)
            return one_call(sut, calls[i], built)
        return run
    history = fork_eval(whole_history)
    refs = [({"mutated": True, "args_untouched": True} if "mutate" in calls[i] else fork_eval(alone(i))) for i in range(len(calls))]
    return {"history": history, "references": refs}


def main():
    here = os.path.dirname(os.path.dirname(os.path.abspath(__file__)))
    sys.path.insert(0, here)
    from pbt import sut, runner
    runner.limit_memory()
    out = os.fdopen(os.dup(1), "w")
    devnull = os.open(os.devnull, os.O_WRONLY)
    os.dup2(devnull, 1)
    try:                                   # load the solver library once (about a second), without touching prtpy
        import mip
        m = mip.Model("warm-up")
        m.verbose = 0
        x = m.add_var(var_type=mip.INTEGER)
        m.objective = mip.minimize(x)
        m.optimize()
    except Exception:
        pass
    out.write(json.dumps({"ready": True, "prtpy": sut.prtpy.__file__}) + "\n")
    out.flush()
    for line in sys.stdin:
        line = line.strip()
        if not line:
            continue
        try:
            resp = handle(sut, json.loads(line))
        except Exception as e:
            resp = {"server_error": f"{type(e).__name__}: {e}"[:300]}
        out.write(json.dumps(resp) + "\n")
        out.flush()


if __name__ == "__main__":
    main()
