"""
The only module that imports prtpy: call layer + normalisation.

A *case* is plain JSON data.  This module turns a case into real arguments (in one of five
*presentations*), calls the public adaptors prtpy.partition / prtpy.pack, and normalises what comes
back to Python ints / Fractions / lists, or to a description of the exception raised.
"""
import contextlib
import os
import sys
import traceback
from fractions import Fraction

import numpy as np

from . import env

prtpy = env.import_prtpy()
from prtpy import outputtypes as out, objectives as obj            # noqa: E402
from prtpy.packing import best_fit, first_fit, bin_completion as _bc   # noqa: E402
from prtpy.packing import greedy_covering, cflz_covering           # noqa: E402

PRT_DIR = os.path.dirname(os.path.abspath(prtpy.__file__)) + os.sep

PARTITIONERS = {
    "greedy": prtpy.partitioning.greedy,
    "roundrobin": prtpy.partitioning.roundrobin,
    "multifit": prtpy.partitioning.multifit,
    "kk": prtpy.partitioning.kk,
    "cg": prtpy.partitioning.complete_greedy,
    "ckk": prtpy.partitioning.ckk,
    "snp": prtpy.partitioning.snp,
    "rnp": prtpy.partitioning.rnp,
    "dp": prtpy.partitioning.dp,
    "ilp": prtpy.partitioning.ilp,
    "cbldm": prtpy.partitioning.cbldm,
}
PACKERS = {
    "ff": first_fit.online,
    "ffd": first_fit.decreasing,
    "bf": best_fit.online,
    "bfd": best_fit.decreasing,
    "bc": _bc.bin_completion,
}
COVERERS = {
    "decreasing": greedy_covering.decreasing,
    "twothirds": cflz_covering.twothirds,
    "threequarters": cflz_covering.threequarters,
}
ALL_ALGS = {**PARTITIONERS, **PACKERS, **COVERERS}

OUTPUT_TYPES = {
    "Sums": out.Sums, "LargestSum": out.LargestSum, "SmallestSum": out.SmallestSum,
    "ExtremeSums": out.ExtremeSums, "SortedSums": out.SortedSums, "Difference": out.Difference,
    "BinCount": out.BinCount, "Partition": out.Partition,
    "PartitionAndSumsTuple": out.PartitionAndSumsTuple, "PartitionAndSums": out.PartitionAndSums,
}
SUMS_ONLY_TYPES = ["Sums", "LargestSum", "SmallestSum", "ExtremeSums", "SortedSums", "Difference", "BinCount"]
PRESENTATIONS = ["list", "array", "dict-str", "dict-int", "names", "names-array", "dict-mixed"]


def kind_of(alg):
    return "partition" if alg in PARTITIONERS else "pack" if alg in PACKERS else "cover"


# ------------------------------------------------------------------ objectives

def make_objective(spec):
    """'minmax' | 'maxmin' | 'diff' | 'klargest:K' | 'ksmallest:K'"""
    if spec == "minmax":
        return obj.MinimizeLargestSum
    if spec == "maxmin":
        return obj.MaximizeSmallestSum
    if spec == "diff":
        return obj.MinimizeDifference
    if spec.startswith("klargest:"):
        return obj.MinimizeKLargestSums(int(spec.split(":")[1]))
    if spec.startswith("ksmallest:"):
        return obj.MaximizeKSmallestSums(int(spec.split(":")[1]))
    raise env.HarnessError(f"unknown objective spec {spec}")


# ------------------------------------------------------------------ numbers

def num(x):
    """Normalise a number coming out of prtpy to int (if integral) or Fraction (exact value of the float)."""
    if isinstance(x, (bool, np.bool_)):
        return int(x)
    if isinstance(x, (int, np.integer)):
        return int(x)
    if isinstance(x, (float, np.floating)):
        xf = float(x)
        if xf != xf or xf in (float("inf"), float("-inf")):
            return xf
        if xf == int(xf):
            return int(xf)
        return Fraction(xf)
    if isinstance(x, Fraction):
        return int(x) if x.denominator == 1 else x
    raise MalformedOutput(f"a number was expected, got {type(x).__name__}: {repr(x)[:80]}")


class MalformedOutput(Exception):
    """The library returned something that is not of the documented shape (e.g. a list of arrays where a list of sums is
    documented).  Raised by the normalisation layer inside `guarded`, so it is reported as the outcome of the call."""


def jsonable(x):
    if isinstance(x, Fraction):
        return float(x) if x.denominator != 1 else int(x)
    if isinstance(x, (np.integer,)):
        return int(x)
    if isinstance(x, (np.floating,)):
        return float(x)
    if isinstance(x, np.ndarray):
        return [jsonable(y) for y in x.tolist()]
    if isinstance(x, (list, tuple)):
        return [jsonable(y) for y in x]
    if isinstance(x, dict):
        return {str(k): jsonable(v) for k, v in x.items()}
    if isinstance(x, float) and (x != x or x in (float("inf"), float("-inf"))):
        return repr(x)
    if isinstance(x, (int, float, str, bool)) or x is None:
        return x
    return repr(x)


# ------------------------------------------------------------------ presentations

class Presented:
    """The real arguments of one call plus what the checker needs to interpret the answer."""
    def __init__(self, items, valueof, names, value_of_name, pres):
        self.items = items              # what is passed as items=
        self.valueof = valueof          # what is passed as valueof= (or None)
        self.names = names              # list of normalised names, in input order
        self.value_of_name = value_of_name   # dict: normalised name -> exact value (int or Fraction); None when names are values
        self.pres = pres

    def value(self, name):
        if self.value_of_name is None:
            return name
        return self.value_of_name[name]


def exact_values(values, den=1):
    return [v if den == 1 else num(Fraction(v, den)) for v in values]


def int_names(values, nseed):
    """Distinct integer names chosen to mislead code that uses the name where it should use the value."""
    n = len(values)
    scheme = nseed % 3
    if scheme == 0:       # reverse index: small ints in the range of small values; the last item is named 0 (a falsy name)
        return [n - 1 - j for j in range(n)]
    if scheme == 1:       # strictly anti-ordered with the values; a largest item given first is named 0
        m = max(values) if values else 0
        return [(m - values[j]) * n + j for j in range(n)]
    # a rotation of the values, made distinct
    return [values[(j + 1) % n] * n + j for j in range(n)]


def str_names(values, nseed):
    n = len(values)
    scheme = nseed % 3
    if scheme == 0:
        names = [f"a{j:03d}" for j in range(n)]
    elif scheme == 1:       # lexicographic order is the reverse of input order
        names = [f"z{n - j:03d}" for j in range(n)]
    else:
        names = [f"{(j * 7 + 3) % max(n, 1):03d}x{j}" for j in range(n)]
    if nseed >= 4 and n:    # one item is named by the empty string (a legitimate, falsy name)
        names[nseed % n] = ""
    return names


def table_value(v, den, nseed, top):
    """The value object stored in a dict / returned by a value function: a Python number, or - for a third of the naming seeds - a
    numpy scalar of a narrow dtype (what one gets from dict(zip(names, some_array)))."""
    if den != 1:
        return v / den
    if v < 0:
        return v
    if nseed % 6 == 4:
        return np.uint8(v) if top < 2 ** 8 else np.uint16(v) if top < 2 ** 16 else v
    if nseed % 6 == 5:
        return np.int32(v) if top < 2 ** 31 else v
    return v


def present(values, pres="list", nseed=0, den=1):
    """Build the arguments for a call.  values: list of ints; den: common denominator (values are v/den)."""
    ev = exact_values(values, den)
    top = max(values) if values else 0
    if pres == "list":
        items = [v if den == 1 else v / den for v in values]
        return Presented(items, None, list(ev), None, pres)
    if pres == "array":
        # int64 / float64 and, where the values fit, narrower and unsigned integer dtypes (arithmetic on unsigned numpy scalars wraps or
        # raises where Python ints do not)
        top = max(values) if values else 0
        choice = nseed % 6
        if values and min(values) < 0:
            choice = 0                                  # negative values (C19's invalid inputs) need a signed dtype
        if den != 1 or choice in (1, 5):
            items = np.array([v / den for v in values], dtype=np.float64)
        elif choice == 2 and top < 2 ** 16:
            items = np.array(values, dtype=np.uint16)
        elif choice == 3 and top < 2 ** 31:
            items = np.array(values, dtype=np.int32)
        elif choice == 4 and top < 2 ** 8:
            items = np.array(values, dtype=np.uint8)
        elif choice == 4 and top < 2 ** 32:
            items = np.array(values, dtype=np.uint32)
        else:
            items = np.array(values, dtype=np.int64)
        return Presented(items, None, list(ev), None, pres)
    if pres == "dict-str":
        names = str_names(values, nseed)
        d = {nm: table_value(v, den, nseed, top) for nm, v in zip(names, values)}
        return Presented(d, None, names, dict(zip(names, ev)), pres)
    if pres == "dict-int":
        names = int_names(values, nseed)
        d = {nm: table_value(v, den, nseed, top) for nm, v in zip(names, values)}
        return Presented(d, None, names, dict(zip(names, ev)), pres)
    if pres == "dict-mixed":        # a dict whose keys are strings AND integers (both are documented kinds of names; nothing says one kind per input)
        sn, im = str_names(values, nseed), int_names(values, nseed)
        names = [sn[j] if (j + nseed) % 2 else im[j] for j in range(len(values))]
        d = {nm: table_value(v, den, nseed, top) for nm, v in zip(names, values)}
        return Presented(d, None, names, dict(zip(names, ev)), pres)
    if pres == "names":
        names = str_names(values, nseed) if (nseed // 3) % 2 == 0 else int_names(values, nseed)
        d = {nm: table_value(v, den, nseed, top) for nm, v in zip(names, values)}
        return Presented(list(names), (lambda name, _d=d: _d[name]), names, dict(zip(names, ev)), pres)
    if pres == "names-array":       # a numpy array of integer item ids plus a value function: two documented input kinds combined
        names = int_names(values, nseed)
        d = {nm: table_value(v, den, nseed, top) for nm, v in zip(names, values)}
        return Presented(np.array(names, dtype=np.int64), (lambda name, _d=d: _d[name]), names, dict(zip(names, ev)), pres)
    raise env.HarnessError(f"unknown presentation {pres}")


def norm_name(x):
    if isinstance(x, str):
        return x
    if isinstance(x, (list, tuple, dict, set, np.ndarray)):
        raise MalformedOutput(f"an item was expected, got {type(x).__name__}: {repr(x)[:80]}")
    return num(x)


# ------------------------------------------------------------------ outcomes

class Outcome:
    __slots__ = ("ok", "value", "exc_type", "where", "message", "via")

    def __init__(self, ok, value=None, exc_type=None, where=None, message=None, via=()):
        self.ok, self.value, self.exc_type, self.where, self.message = ok, value, exc_type, where, message
        self.via = via          # all prtpy frames the exception passed through, outermost first

    def describe(self):
        if self.ok:
            return {"returned": jsonable(self.value)}
        return {"raised": self.exc_type, "where": self.where, "message": self.message}

    def __eq__(self, other):
        return isinstance(other, Outcome) and self.describe() == other.describe()

    def __repr__(self):
        return f"Outcome({self.describe()})"


def prtpy_frames(tb):
    via = []
    for frame, _ in traceback.walk_tb(tb):
        fn = os.path.abspath(frame.f_code.co_filename)
        if fn.startswith(PRT_DIR):
            w = f"{os.path.basename(fn)[:-3]}.{frame.f_code.co_name}"
            if not via or via[-1] != w:
                via.append(w)
    return via


def guarded(fn):
    """Run fn(); return Outcome.  Harness errors and KeyboardInterrupt propagate."""
    try:
        return Outcome(True, fn())
    except (env.HarnessError, KeyboardInterrupt, MemoryError):
        raise
    except Exception as e:                           # the property decides whether this is allowed
        via = prtpy_frames(e.__traceback__)
        msg = "" if isinstance(e, RecursionError) else str(e)[:200]
        return Outcome(False, None, type(e).__name__, via[-1] if via else None, msg, tuple(via))


def normalise_output(outputtype, raw):
    if outputtype in ("Partition", "Sums", "SortedSums") and not isinstance(raw, (list, tuple, np.ndarray)):
        raise MalformedOutput(f"{outputtype}: a list was expected, got {type(raw).__name__}")
    if outputtype in ("PartitionAndSumsTuple", "ExtremeSums") and not (isinstance(raw, (list, tuple)) and len(raw) == 2):
        raise MalformedOutput(f"{outputtype}: a pair was expected, got {repr(raw)[:80]}")
    if outputtype == "Partition":
        return [[norm_name(x) for x in b] for b in raw]
    if outputtype == "PartitionAndSumsTuple":
        sums, lists = raw
        return ([num(s) for s in sums], [[norm_name(x) for x in b] for b in lists])
    if outputtype == "PartitionAndSums":
        return ([num(s) for s in raw.sums], [[norm_name(x) for x in b] for b in raw.lists])
    if outputtype in ("Sums", "SortedSums"):
        return [num(s) for s in raw]
    if outputtype == "ExtremeSums":
        return (num(raw[0]), num(raw[1]))
    return num(raw)


def build_opts(alg, opts):
    """Turn the JSON options of a case into keyword arguments."""
    kw = {}
    opts = opts or {}
    if "objective" in opts:
        kw["objective"] = make_objective(opts["objective"])
    if alg == "cg" and "switches" in opts:
        lb, flb, h3, seen = opts["switches"]
        kw.update(use_lower_bound=bool(lb), use_fast_lower_bound=bool(flb), use_heuristic_3=bool(h3),
                  use_set_of_seen_states=bool(seen))
    if alg == "multifit" and "iterations" in opts:
        kw["iterations"] = opts["iterations"]
    if alg == "cbldm":
        if opts.get("partition_difference") is not None:
            kw["partition_difference"] = opts["partition_difference"]
        if opts.get("time_limit") is not None:
            kw["time_limit"] = opts["time_limit"]
    if alg == "cg" and opts.get("time_limit") is not None:
        kw["time_limit"] = opts["time_limit"]
    for k in ("copies", "weights"):
        if alg == "ilp" and opts.get(k) is not None:
            kw[k] = opts[k]
    if alg == "ilp" and opts.get("time_limit") is not None:
        kw["time_limit"] = opts["time_limit"]
    if alg == "ilp" and opts.get("constraint") is not None:
        kind, c = opts["constraint"]
        if kind == "min==":
            kw["additional_constraints"] = lambda sums, _c=c: [sums[0] == _c]
        elif kind == "max<=":
            kw["additional_constraints"] = lambda sums, _c=c: [sums[-1] <= _c]
        elif kind == "min>=":
            kw["additional_constraints"] = lambda sums, _c=c: [sums[0] >= _c]
        else:
            raise env.HarnessError(f"unknown constraint {opts['constraint']}")
    return kw


def call(alg, param, presented, outputtype="Partition", opts=None, extra_kw=None):
    """One public call.  param = numbins (partitioners) or binsize (packers, coverers)."""
    kw = build_opts(alg, opts)
    if extra_kw:
        kw.update(extra_kw)
    ot = OUTPUT_TYPES[outputtype]
    f = ALL_ALGS[alg]
    if alg in PARTITIONERS:
        def run():
            raw = prtpy.partition(algorithm=f, numbins=param, items=presented.items,
                                  valueof=presented.valueof, outputtype=ot, **kw)
            return normalise_output(outputtype, raw)
    else:
        def run():
            raw = prtpy.pack(algorithm=f, binsize=param, items=presented.items,
                             valueof=presented.valueof, outputtype=ot, **kw)
            return normalise_output(outputtype, raw)
    return guarded(run)


def case_param(case):
    return case["numbins"] if "numbins" in case else binsize_of(case)


def binsize_of(case):
    den = case.get("den", 1)
    c = case["binsize"]
    return c if den == 1 else c / den


def run_case(case, outputtype="Partition", pres=None, extra_kw=None):
    """Build the presentation of a case and make the call.  Returns (Presented, Outcome)."""
    p = present(case["values"], pres or case.get("pres", "list"), case.get("nseed", 0), case.get("den", 1))
    return p, call(case["alg"], case_param(case), p, outputtype, case.get("opts"), extra_kw)


# ------------------------------------------------------------------ ILP: telling solver faults from prtpy faults

@contextlib.contextmanager
def ilp_preprocess_off():
    """Repeat an ILP call with CBC's preprocessing switched off (see DESIGN.md section 3)."""
    import mip
    original = mip.Model.optimize

    def optimize(self, *a, **k):
        self.preprocess = 0
        return original(self, *a, **k)
    mip.Model.optimize = optimize
    try:
        yield
    finally:
        mip.Model.optimize = original


@contextlib.contextmanager
def quiet_fds():
    """CBC writes to the C-level stdout; keep the check's stdout clean."""
    sys.stdout.flush()
    saved = os.dup(1)
    devnull = os.open(os.devnull, os.O_WRONLY)
    try:
        os.dup2(devnull, 1)
        yield
    finally:
        sys.stdout.flush()
        os.dup2(saved, 1)
        os.close(saved)
        os.close(devnull)


# ------------------------------------------------------------------ direct calls on documented extension points

def make_sequence(values, seq):
    """A vector of sums as list / tuple / int64 array / float64 array."""
    if seq == "list":
        return list(values)
    if seq == "tuple":
        return tuple(values)
    if seq == "iarray":
        return np.array(values, dtype=np.int64)
    if seq == "farray":
        return np.array(values, dtype=np.float64)
    raise env.HarnessError(f"unknown sequence type {seq}")


def objective_call(spec, sums, seq="list", declared_sorted=None, weights=None, method="value_to_minimize", remaining=None):
    """Call value_to_minimize / lower_bound of a built-in objective directly.  declared_sorted None = argument omitted."""
    o = obj.MaximizeSmallestWeightedSum(list(weights)) if spec == "wmaxmin" else make_objective(spec)
    arg = make_sequence(sums, seq)

    def run():
        kw = {}
        if declared_sorted is not None:
            kw["are_sums_in_ascending_order"] = declared_sorted
        if method == "value_to_minimize":
            raw = o.value_to_minimize(arg, **kw)
        else:
            raw = o.lower_bound(arg, remaining, **kw)
        if isinstance(raw, np.ndarray):
            if raw.shape != ():
                raise TypeError(f"objective returned an array of shape {raw.shape}, not a number")
            raw = raw[()]
        return num(raw)
    out = guarded(run)
    after = arg.tolist() if isinstance(arg, np.ndarray) else list(arg)
    return out, [num(x) for x in after]


def sums_binner_numitems(nbins, adds, index):
    """BinnerKeepingSums: build an array of nbins bins, add the (value, bin) pairs, then ask numitems(index)."""
    def run():
        b = prtpy.BinnerKeepingSums()
        bins = b.new_bins(nbins)
        for v, i in adds:
            b.add_item_to_bin(bins, v, i)
        return num(b.numitems(bins, index))
    return guarded(run)


def inex_tree_subsets(names, values, lo, hi, abandon_after=None):
    """InExclusionBinTree(items=names, valueof, upper_bound=hi, lower_bound=lo).generate_tree() -> list of lists of names."""
    from prtpy.inclusion_exclusion_tree import InExclusionBinTree
    table = dict(zip(names, values))
    given = list(names)

    def run():
        t = InExclusionBinTree(items=given, valueof=table.__getitem__, upper_bound=hi, lower_bound=lo)
        if abandon_after is not None:
            # an earlier enumeration of the same tree object that is abandoned after a few yields (what a caller does who breaks out
            # of its loop), then a complete one
            g = t.generate_tree()
            for _ in range(abandon_after):
                if next(g, None) is None:
                    break
        return [[norm_name(x) for x in subset] for subset in t.generate_tree()]
    out = guarded(run)
    return out, given == list(names)


def all_combinations(manager, bins1, bins2, table=None):
    """Binner.all_combinations on two bins-arrays built from plain data.
    manager 'sums': bins = list of sums;  'contents': bins = list of lists of names, values from `table`.
    Returns the outcome with a list of yielded arrays, each as (sums, lists-or-None)."""
    if manager == "sums":
        b = prtpy.BinnerKeepingSums()
        a1, a2 = np.array(bins1, dtype=float), np.array(bins2, dtype=float)

        def run():
            return [([num(s) for s in y], None) for y in b.all_combinations(a1, a2)]
        return guarded(run)
    b = prtpy.BinnerKeepingContents(table.__getitem__) if table is not None else prtpy.BinnerKeepingContents()

    def build(lists):
        arr = b.new_bins(len(lists))
        for i, l in enumerate(lists):
            for x in l:
                b.add_item_to_bin(arr, x, i)
        return arr
    a1, a2 = build(bins1), build(bins2)

    def run():
        res = []
        for y in b.all_combinations(a1, a2):
            sums, lists = y
            res.append(([num(s) for s in sums], [[norm_name(x) for x in l] for l in lists]))
        return res
    return guarded(run)


# ------------------------------------------------------------------ anytime algorithms under a counting clock (C11)

class CountingClock:
    """Stands in for the `time` module inside an anytime algorithm: perf_counter() returns 0, 1, 2, ..."""
    def __init__(self, real):
        self._real = real
        self.reads = 0

    def perf_counter(self):
        r = self.reads
        self.reads += 1
        return float(r)

    def __getattr__(self, name):
        return getattr(self._real, name)


@contextlib.contextmanager
def counting_clock(module_name):
    """Replace the module attribute `time` of the algorithm's module (and, for robustness against a re-binding,
    time.perf_counter itself) by a counting clock for the duration of one call."""
    import importlib
    import time as real_time
    mod = importlib.import_module(module_name)
    clock = CountingClock(real_time)
    had = hasattr(mod, "time")
    saved_attr = getattr(mod, "time", None)
    saved_pc = real_time.perf_counter
    mod.time = clock
    real_time.perf_counter = clock.perf_counter
    try:
        yield clock
    finally:
        real_time.perf_counter = saved_pc
        if had:
            mod.time = saved_attr
        else:
            del mod.time


def _python_values(valueof):
    """Direct calls of an algorithm function bypass the adaptors; like them, hand the algorithm Python numbers, not numpy scalars."""
    return lambda item: (lambda v: v.item() if isinstance(v, np.generic) else v)(valueof(item))


def _norm_bins_result(res):
    """None | 'placeholder' | (sums, lists) from what an anytime algorithm returned when called with a contents manager."""
    if res is None:
        return None
    if not (isinstance(res, (tuple, list)) and len(res) == 2):
        raise MalformedOutput(f"a (sums, lists) pair or None was expected, got {repr(res)[:80]}")
    sums, lists = res
    fsums = [float(s) for s in sums]
    if any(s in (float("inf"), float("-inf")) or s != s for s in fsums):
        return "placeholder"
    return ([num(s) for s in sums], [[norm_name(x) for x in b] for b in lists])


def anytime_call(alg, presented, numbins, opts, time_limit):
    """Call complete greedy / cbldm *directly* with a contents-keeping manager under a counting clock.
    time_limit None = no limit.  Returns (Outcome with value None|'placeholder'|(sums, lists), number of clock readings)."""
    valueof = presented.valueof
    items = presented.items
    if isinstance(items, dict):
        valueof, items = items.__getitem__, list(items.keys())
    if valueof is None:
        valueof = lambda x: x                                  # noqa: E731
    binner = prtpy.BinnerKeepingContents(_python_values(valueof))
    kw = build_opts(alg, opts)
    kw.pop("time_limit", None)
    if time_limit is not None:
        kw["time_limit"] = time_limit
    if alg == "cg":
        module, fn = "prtpy.partitioning.complete_greedy", prtpy.partitioning.complete_greedy
    else:
        module, fn = "prtpy.partitioning.cbldm", prtpy.partitioning.cbldm
    with counting_clock(module) as clock:
        out = guarded(lambda: _norm_bins_result(fn(binner, numbins, items, **kw)))
    return out, clock.reads


ANYTIME_MODULES = {"cg": "prtpy.partitioning.complete_greedy", "cbldm": "prtpy.partitioning.cbldm"}


def call_with_ticks(alg, param, presented, outputtype, opts, ticks):
    """A public call of complete greedy / cbldm with time_limit = `ticks`, under a counting clock that starts at 0 for this call: a
    deterministic time-limited call, so that the purity statements apply to it like to any other call."""
    with counting_clock(ANYTIME_MODULES[alg]):
        return call(alg, param, presented, outputtype, dict(opts or {}, time_limit=ticks))


def ckk_generator_yields(presented, numbins):
    """Every partition yielded by the complete Karmarkar-Karp generator, snapshotted at the moment it is yielded."""
    from prtpy.partitioning.complete_karmarkar_karp_sy import generator
    valueof = presented.valueof
    items = presented.items
    if isinstance(items, dict):
        valueof, items = items.__getitem__, list(items.keys())
    if valueof is None:
        valueof = lambda x: x                                  # noqa: E731
    binner = prtpy.BinnerKeepingContents(_python_values(valueof))

    def run():
        return [_norm_bins_result(y) for y in generator(binner, numbins, items)]
    return guarded(run)


# ------------------------------------------------------------------ purity (C15)

def set_value(presented, index, value, den=1):
    """What a CALLER does when it changes one value of an input object it keeps using: a list / array element, a dict value, or the
    table behind its value function.  The item's name stays what it was; the checker's view of the values is updated alongside."""
    exact = exact_values([value], den)[0]
    real = value if den == 1 else value / den
    items = presented.items
    name = presented.names[index]
    if presented.value_of_name is None:              # list / array: the items are the values
        items[index] = real
        presented.names[index] = exact
        return
    table = items if isinstance(items, dict) else presented.valueof.__defaults__[0]
    key = list(table.keys())[index]
    old = table[key]
    table[key] = type(old)(real) if isinstance(old, np.generic) else real
    presented.value_of_name[name] = exact


def snapshot(presented):
    """A deep, comparable snapshot of the arguments of a call (items and, for names+valueof, the value table)."""
    items = presented.items
    if isinstance(items, np.ndarray):
        snap = ("ndarray", items.dtype.str, items.shape, items.tobytes(), bool(items.flags.writeable))
    elif isinstance(items, dict):
        snap = ("dict", [(k, repr(v)) for k, v in items.items()])
    else:
        snap = ("list", type(items).__name__, [(type(x).__name__, repr(x)) for x in items])
    extra = None
    if presented.valueof is not None and presented.valueof.__defaults__:
        d = presented.valueof.__defaults__[0]
        if isinstance(d, dict):
            extra = [(k, repr(v)) for k, v in d.items()]
    return (snap, extra)


def objective_sequence(spec, weights, calls, inplace=False):
    """ONE objective object evaluated on several vectors in order.  calls: list of (sums, seq, declared_sorted).
    Returns the list of outcomes (state kept by the object between evaluations would show as a wrong later value).
    inplace: the vectors (all of one length) are written into ONE container object, the way a bins-manager's sums array changes
    while items are added (a list or an array; a tuple cannot be updated in place and is rebuilt)."""
    o = obj.MaximizeSmallestWeightedSum(list(weights)) if spec == "wmaxmin" else make_objective(spec)
    outs = []
    container = None
    for sums, seq, declared in calls:
        if inplace and container is not None and seq != "tuple" and len(container) == len(sums):
            container[:] = list(sums)
            arg = container
        else:
            arg = make_sequence(sums, seq)
            container = arg

        def run(arg=arg, declared=declared):
            kw = {}
            if declared is not None:
                kw["are_sums_in_ascending_order"] = declared
            raw = o.value_to_minimize(arg, **kw)
            if isinstance(raw, np.ndarray):
                if raw.shape != ():
                    raise TypeError(f"objective returned an array of shape {raw.shape}, not a number")
                raw = raw[()]
            return num(raw)
        outs.append(guarded(run))
    return outs


def dominance_claims(pairs):
    """bin_completion_utils.is_dominant(list1, list2) for each pair (an internal helper of bin completion, named in C04's
    anchors).  Returns a list of True/False/None (None = the call raised), or None if the helper does not exist (any more)."""
    try:
        from prtpy.packing import bin_completion_utils as u
        f = u.is_dominant
    except Exception:
        return None
    out = []
    for a, b in pairs:
        try:
            out.append(bool(f(list(a), list(b))))
        except Exception:
            out.append(None)
    return out
