"""
Coverage-guided fuzzing leg (atheris / libFuzzer), thorough tier only, secondary to the Hypothesis legs.

    /venv/bin/python -m pbt.fuzz_target <C02|C03|C04> <out.json> <runs> [libFuzzer arguments ... corpus_dir]

The bytes are decoded by a transparent, invertible layout into a plain case of one of the property modules, and the
property's own `evaluate` - with its oracle - runs inside the target, so the fuzzer searches for *semantic* failures, not
crashes.  Failures do not stop the campaign: the smallest failing case per bucket is written to <out.json> (together with
the counters) and the campaign goes on; the parent re-evaluates those cases in-process, minimises them and writes ordinary
replay files.  libFuzzer ends the process with _exit, so the counters are flushed every 64 executions and at the last run.
"""
import json
import os
import sys

TARGETS = {
    # name: (property module, evaluate uses, description)
    "bc": "bin_completion: feasibility (C03) and minimality (C04) oracles",
    "search": "ckk / snp / rnp / complete greedy: exhaustive-optimum oracle (C02)",
}
BINSIZES = [5, 6, 7, 8, 10, 12, 13, 20, 24, 30, 60, 100]
SEARCH_ALGS = ["ckk", "snp", "rnp", "cg"]
SEARCH_SIZES = {2: 10, 3: 10, 4: 9, 5: 8}
CG_OBJ = ["diff", "minmax", "maxmin"]


def decode(target, data):
    """bytes -> case (or None).  Layout: one selector byte, one scale byte, then one byte per item."""
    if len(data) < 3:
        return None
    sel, scale, body = data[0], data[1], data[2:]
    if target == "bc":
        # constructive layout: the bytes describe planted bins (one medium item of 0.3-0.45 C plus two or three fillers that complete the
        # bin exactly) followed by free extra items - the shape on which best-fit-decreasing is often not optimal, so that the search
        # of bin completion runs and coverage feedback can steer it
        C = BINSIZES[sel % len(BINSIZES)]
        m = 1 + scale % 4
        values, i = [], 0
        for _ in range(m):
            if i + 3 > len(body) or len(values) >= 8:
                break
            a = (3 * C) // 10 + body[i] % max(1, (3 * C) // 20 + 1)
            rest = C - a
            p_ = 1 + body[i + 1] % max(1, rest - 1)
            q = rest - p_
            pieces = [p_, q]
            if body[i + 2] % 2 and q >= 2:
                r = 1 + body[i + 2] % (q - 1)
                pieces = [p_, r, q - r]
            values += [a] + [x for x in pieces if x > 0]
            i += 3
        for b in body[i:]:
            if len(values) >= 11:
                break
            values.append(1 + b % C)
        if not values:
            return None
        return {"alg": "bc", "values": values[:11], "binsize": C, "pres": "list" if scale % 5 else "dict-str", "nseed": scale % 6,
                "profile": "fuzz"}
    alg = SEARCH_ALGS[sel % 4]
    k = 2 + (sel // 4) % 4
    n = SEARCH_SIZES[k] - (scale >> 7)        # always (nearly) the largest size the oracle covers: short inputs are stretched
    mult = [1, 1, 3, 17, 1000][scale % 5]
    L = len(body)
    values = [((body[i % L] + 31 * (i // L)) % 256) * mult for i in range(n)]
    case = {"alg": alg, "values": values, "numbins": k, "pres": "list", "nseed": 0, "profile": "fuzz"}
    if alg == "cg":
        case["opts"] = {"objective": CG_OBJ[(sel // 16) % 3], "switches": [(scale >> 3) & 1, (scale >> 4) & 1, (scale >> 5) & 1, (scale >> 6) & 1]}
    return case


def encode(target, case):
    """The inverse of decode for seeding the corpus with small valid inputs (best effort)."""
    if target == "bc":            # free extra items only (no planted part): m = 0 is not expressible, so one dummy planted bin is tolerated
        C = case["binsize"]
        return bytes([BINSIZES.index(C), 0, 0, 0, 0] + [(v - 1) % 256 for v in case["values"]][:7])
    k = case["numbins"]
    return bytes([SEARCH_ALGS.index(case["alg"]) + 4 * (k - 2), 0] + [v % 256 for v in case["values"]])


SEEDS = {
    "bc": [{"binsize": 20, "values": [4, 4, 8, 9, 9, 8, 7, 3, 4, 3]}, {"binsize": 100, "values": [30, 30, 30, 30, 40, 40]},
           {"binsize": 20, "values": [5, 10, 4, 10, 8, 6, 4, 10, 5, 4, 4]}, {"binsize": 12, "values": [3, 4, 3, 6, 3, 4]}],
    "search": [{"alg": "rnp", "numbins": 4, "values": [68, 22, 72, 23, 31, 30, 4]}, {"alg": "snp", "numbins": 3, "values": [1, 3, 3, 4, 4, 5, 5, 5]},
               {"alg": "ckk", "numbins": 5, "values": [62, 93, 99, 129, 158, 187, 199, 212]}, {"alg": "cg", "numbins": 3, "values": [46, 39, 27, 26, 16, 13, 10]}],
}


PROP_TARGET = {"C02": "search", "C03": "bc", "C04": "bc"}


def main(argv):
    prop, out_path, runs = argv[0], argv[1], int(argv[2])
    target = PROP_TARGET[prop]
    rest = argv[3:]
    here = os.path.dirname(os.path.dirname(os.path.abspath(__file__)))
    sys.path.insert(0, here)
    deps = os.path.join(here, ".deps")
    if os.path.isdir(deps):
        sys.path.append(deps)
    try:
        import atheris
    except ImportError as e:
        json.dump({"skipped": f"atheris is not importable: {e}"}, open(out_path, "w"))
        return 0
    with atheris.instrument_imports(include=["prtpy"]):
        from pbt import sut            # noqa: F401   (imports prtpy from the tree under test)
    import importlib
    from pbt import runner
    mod = importlib.import_module(f"pbt.props.{prop.lower()}")
    known = runner.load_known(prop)[0]
    state = {"evals": 0, "executions": 0, "invalid": 0, "nontrivial": set(), "labels": {}, "failures": {}, "inconclusive": 0}

    def flush():
        tmp = out_path + ".tmp"
        with open(tmp, "w") as f:
            json.dump({"evals": state["evals"], "executions": state["executions"], "invalid": state["invalid"],
                       "nontrivial": sorted(state["nontrivial"])[:200000], "labels": state["labels"],
                       "failures": {b: c for b, (_, c) in state["failures"].items()}, "inconclusive": state["inconclusive"]}, f)
        os.replace(tmp, out_path)

    def evaluate(case):
        if prop == "C02":
            return mod.evaluate(case) if mod.valid_deep(case) else None
        if prop == "C03":
            return mod.evaluate(dict(case, outputtypes=["BinCount", "Sums"]))
        return mod.evaluate(case) if mod.valid(case) else None

    def one_input(data):
        state["executions"] += 1
        case = decode(target, data)
        res = evaluate(case) if case is not None else None
        if res is None:
            state["invalid"] += 1
        else:
            state["evals"] += 1
            for lab in res.labels:
                state["labels"][lab] = state["labels"].get(lab, 0) + 1
            if res.inconclusive:
                state["inconclusive"] += 1
            for f in res.failures:
                if f.bucket in known:
                    continue
                size = runner.case_size(case)
                old = state["failures"].get(f.bucket)
                if old is None or size < old[0]:
                    state["failures"][f.bucket] = (size, case)
                    flush()
            if res.nontrivial:
                state["nontrivial"].add(runner.case_hash(case))
        if state["executions"] % 64 == 0 or state["executions"] >= runs:
            flush()

    flush()
    atheris.Setup([sys.argv[0]] + rest + [f"-runs={runs}"], one_input)
    atheris.Fuzz()
    return 0


def fuzz_leg(prop, n_thorough, evaluate, valid, shards=4, n_quick=0):
    """A runner Leg that drives this target in a subprocess per shard and feeds what it found back into the recorder."""
    import subprocess
    from . import env
    from .runner import Leg
    target = PROP_TARGET[prop]

    def stateful(n, seed, rec, tier):
        shard = seed % 1000003
        work = os.path.join(env.OUT_DIR, ".work", "fuzz", f"{prop}-{shard}")
        corpus = os.path.join(work, "corpus")
        if os.path.isdir(work):
            import shutil
            shutil.rmtree(work, ignore_errors=True)
        os.makedirs(corpus)
        seeded = (seed // 7) % 2 == 0              # half of the shards start from an empty corpus, half from small valid inputs
        if seeded:
            for i, c in enumerate(SEEDS[target]):
                open(os.path.join(corpus, f"seed{i}"), "wb").write(encode(target, dict(c, alg=c.get("alg", "bc"))))
        out = os.path.join(work, "out.json")
        cmd = [sys.executable, "-m", "pbt.fuzz_target", prop, out, str(max(1, n)), f"-seed={seed % (2 ** 31 - 1) + 1}", "-max_len=16",
               "-timeout=120", "-rss_limit_mb=4096", "-verbosity=0", "-print_final_stats=0", corpus]
        envv = dict(os.environ, PYTHONHASHSEED="0", VERIF_REPO=env.REPO)
        try:
            subprocess.run(cmd, cwd=env.VERIF_DIR, env=envv, stdout=subprocess.DEVNULL, stderr=subprocess.DEVNULL, timeout=3000)
        except subprocess.TimeoutExpired:
            rec.inconclusive["fuzz-campaign-timeout"] += 1
        try:
            data = json.load(open(out))
        except Exception:
            rec.labels["fuzz:no-output"] += 1
            return
        finally:
            import shutil
            shutil.rmtree(work, ignore_errors=True)
        if "skipped" in data:
            rec.labels["fuzz:skipped(atheris not importable)"] += 1
            return
        rec.evals += data["evals"]
        rec.executions += data["executions"]
        rec.nontrivial |= set(data["nontrivial"])
        for k, v in data["labels"].items():
            rec.labels[k] += v
        rec.labels["fuzz:corpus=" + ("seeded" if seeded else "empty")] += 1
        rec.labels["fuzz:inputs-decoded-to-invalid-cases"] += data["invalid"]
        if data.get("inconclusive"):
            rec.inconclusive["fuzz:inconclusive"] += data["inconclusive"]
        for bucket, case in data["failures"].items():
            rec.run(case)                            # re-evaluated in-process; recorded, minimised and replayed like any case

    return Leg("fuzz", evaluate,
               f"atheris / libFuzzer, coverage-guided over prtpy (instrument_imports), {shards} campaigns (half from an empty corpus, half "
               f"seeded with small valid inputs); bytes decode into a case by a transparent layout and the property's own evaluator and "
               f"oracle run inside the target; failures are collected per bucket without stopping the campaign; same non-triviality rule",
               stateful=stateful, n_quick=n_quick, n_thorough=n_thorough, valid=valid, shards=shards)


if __name__ == "__main__":
    sys.exit(main(sys.argv[1:]))
