"""
C20 - built-in objectives compute their documented quantity on every sum vector.
"""
import itertools
from fractions import Fraction

from hypothesis import strategies as st

from .. import common, env, oracles, runner, strategies as S, sut
from ..runner import Failure, Leg, Result

PROP = "C20"
SEQS = ["list", "tuple", "iarray", "farray"]
KINDS = ["minmax", "maxmin", "diff", "klargest", "ksmallest", "wmaxmin"]
TOL = Fraction(1, 10 ** 12)


def definition(spec, sums, weights=None):
    """The documented quantity in 'value to minimise' form, exact."""
    if spec == "wmaxmin":
        return -min(Fraction(s) / Fraction(w) for s, w in zip(sums, weights))
    return oracles.to_minimize(spec, sums)


def close(got, want):
    if isinstance(got, float):      # inf / nan
        return False
    return abs(Fraction(got) - Fraction(want)) <= TOL * max(1, abs(Fraction(want)))


def evaluate(case):
    sums, seq, spec = case["sums"], case["seq"], case["obj"]
    weights = case.get("weights")
    kind = spec.split(":")[0]
    labels = [f"obj={kind}", f"seq={seq}", f"len={min(len(sums), 5)}"]
    fails = []
    want = definition(spec, sums, weights)
    is_sorted = all(a <= b for a, b in zip(sums, sums[1:]))
    labels.append("given-sorted" if is_sorted else "given-unsorted")
    execs = 0

    def one(tag, vec, declared, expect_error=False):
        nonlocal execs
        execs += 1
        o, after = sut.objective_call(spec, vec, seq, declared, weights)
        if after != list(vec):
            fails.append(Failure(f"{PROP}/{kind}/{tag}:argument-modified", {"before": vec, "after": sut.jsonable(after)}))
        if expect_error:
            if o.ok:
                fails.append(Failure(f"{PROP}/{kind}/{tag}:sorted-flag-not-refused", {"returned": sut.jsonable(o.value)}))
            elif o.exc_type != "ValueError":
                fails.append(Failure(f"{PROP}/{kind}/{tag}:wrong-exception:{o.exc_type}", o.describe()))
            return
        if not o.ok:
            fails.append(Failure(f"{PROP}/{kind}/{tag}:exception:{o.exc_type}@{o.where}", o.describe()))
            return
        good = close(o.value, want) if kind == "wmaxmin" else (o.value == want)
        if not good:
            fails.append(Failure(f"{PROP}/{kind}/{tag}:wrong-value",
                                 {"sums": vec, "weights": weights, "got": sut.jsonable(o.value), "definition": sut.jsonable(want),
                                  "declared_sorted": declared}))

    if kind == "wmaxmin":
        one("any-order", sums, None)
        one("any-order-flag-false", sums, False)
        one("sorted-flag", sums, True, expect_error=True)
    else:
        asc = sorted(sums)
        one("any-order", sums, None)
        one("any-order-flag-false", sums, False)
        one("sorted-fast-path", asc, True)
        one("sorted-slow-path", asc, False)
        one("descending-slow-path", asc[::-1], False)
    distinct = len(set(sums)) >= 2
    nontrivial = distinct and sums[0] != sums[-1]
    if kind in ("klargest", "ksmallest"):
        kk = int(spec.split(":")[1])
        labels.append("k<len" if kk < len(sums) else "k>=len")
        nontrivial = nontrivial and kk < len(sums)
    if kind == "wmaxmin":
        nontrivial = nontrivial and len(set(weights)) >= 2
    return Result(fails, labels, nontrivial, None, {"definition": sut.jsonable(want)}, subcases=execs)


def specs_for(n, with_weights=True):
    out = ["minmax", "maxmin", "diff"]
    for k in range(1, n + 4):
        out += [f"klargest:{k}", f"ksmallest:{k}"]
    return out


@st.composite
def random_cases(draw):
    n = draw(st.integers(1, 8))
    style = draw(st.integers(0, 3))
    if style == 0:
        sums = draw(st.lists(st.integers(0, 10), min_size=n, max_size=n))
    elif style == 1:
        sums = S.splitmix(draw(st.integers(0, 2 ** 40)), n, 0, 10 ** 6)
    elif style == 2:
        sums = draw(st.lists(st.integers(0, 10 ** 6), min_size=n, max_size=n))
    else:
        sums = sorted(S.splitmix(draw(st.integers(0, 2 ** 40)), n, 0, 1000), reverse=draw(st.booleans()))
    kind = draw(st.sampled_from(KINDS))
    case = {"sums": sums, "seq": draw(st.sampled_from(SEQS))}
    if kind in ("klargest", "ksmallest"):
        case["obj"] = f"{kind}:{draw(st.integers(1, n + 3))}"
    elif kind == "wmaxmin":
        case["obj"] = kind
        wstyle = draw(st.integers(0, 2))
        if wstyle == 0:
            case["weights"] = draw(st.lists(st.integers(1, 10), min_size=n, max_size=n))
        elif wstyle == 1:
            case["weights"] = [w / 8 for w in draw(st.lists(st.integers(1, 80), min_size=n, max_size=n))]
        else:
            case["weights"] = S.splitmix(draw(st.integers(0, 2 ** 40)), n, 1, 1000)
    else:
        case["obj"] = kind
    return case


def exhaustive_cases(tier):
    """All vectors of <= 4 entries over 0..4 x every objective (k 1..len+3; weights from {1,2,3}^len for <=3 entries) x 4
    sequence types."""
    idx = 0
    for n in range(1, 5):
        for sums in itertools.product(range(5), repeat=n):
            specs = specs_for(n)
            for spec in specs:
                for seq in SEQS:
                    idx += 1
                    if tier == "quick" and (idx * 2654435761 + env.seed()) % 8 != 0:
                        continue
                    yield {"sums": list(sums), "seq": seq, "obj": spec}
            if n <= 3:
                for w in itertools.product((1, 2, 3), repeat=n):
                    idx += 1
                    if tier == "quick" and (idx * 2654435761 + env.seed()) % 8 != 0:
                        continue
                    yield {"sums": list(sums), "seq": SEQS[idx % 4], "obj": "wmaxmin", "weights": list(w)}


def valid(case):
    s = case.get("sums")
    if not isinstance(s, list) or not s or any((not isinstance(x, int)) or x < 0 for x in s):
        return False
    spec = case.get("obj", "")
    if spec == "wmaxmin":
        w = case.get("weights")
        return isinstance(w, list) and len(w) == len(s) and all(x > 0 for x in w)
    if ":" in spec:
        return int(spec.split(":")[1]) >= 1
    return spec in ("minmax", "maxmin", "diff")


def legs(tier):
    rule = ("hypothesis: vector of 1-8 non-negative integer sums (0..10, evenly spread up to 10^6, already sorted ascending or "
            "descending) as list/tuple/int array/float array x objective (k in 1..len+3; weights ints, eighths); per case the "
            "objective is called on the given order (flag omitted and False), on the ascending copy with the sorted flag "
            "(fast path) and without it, and on the descending copy; oracle = my own definition in exact arithmetic "
            "(weighted: tolerance 1e-12 relative; sorted flag must raise ValueError); non-trivial = >=2 distinct entries with "
            "first != last, k < len for the k-objectives, >=2 distinct weights for the weighted objective")
    return [
        Leg("corpus", evaluate, "docstring vectors", corpus=common.load_corpus(PROP), valid=valid, shards=1),
        Leg("random", evaluate, rule, strategy=random_cases(), n_quick=10000, n_thorough=200000, valid=valid, floor=0.3),
        Leg("exhaustive-small", evaluate,
            "all vectors of <=4 entries over 0..4 x every objective (k in 1..len+3) x 4 sequence types, and all weight "
            "vectors over {1,2,3} for <=3 entries (quick: 1/8 slice); same rule",
            enum=exhaustive_cases, valid=valid, exhaustive=True,
            scope="vectors(<=4 entries over 0..4) x objectives x sequence types"),
    ]


def main():
    return runner.run_check(PROP, legs(env.tier()), level="exploration", assumptions=[
        "non-negative integer sums up to 10^6 (exactly representable as float64)",
        "weighted objective compared with the exact rational value within 1e-12 relative tolerance (one float division)",
    ])
