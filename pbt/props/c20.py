"""
C20 - built-in objectives compute their documented quantity on every sum vector.
"""
import itertools
from fractions import Fraction

from hypothesis import strategies as st

from .. import common, env, oracles, runner, strategies as S, sut
from ..runner import Failure, Leg, Result

PROP = "C20"
SEQS = ["list", "tuple", "iarray", "farray"]
KINDS = ["minmax", "maxmin", "diff", "klargest", "ksmallest", "wmaxmin"]
TOL = Fraction(1, 10 ** 12)


def definition(spec, sums, weights=None):
    """The documented quantity in 'value to minimise' form, exact."""
    if spec == "wmaxmin":
        return -min(Fraction(s) / Fraction(w) for s, w in zip(sums, weights))
    return oracles.to_minimize(spec, sums)


def close(got, want):
    if isinstance(got, float):      # inf / nan
        return False
    return abs(Fraction(got) - Fraction(want)) <= TOL * max(1, abs(Fraction(want)))


def evaluate(case):
    if case.get("kind") == "reuse":
        return evaluate_reuse(case)
    sums, seq, spec = case["sums"], case["seq"], case["obj"]
    weights = case.get("weights")
    kind = spec.split(":")[0]
    labels = [f"obj={kind}", f"seq={seq}", f"len={min(len(sums), 5)}"]
    fails = []
    want = definition(spec, sums, weights)
    is_sorted = all(a <= b for a, b in zip(sums, sums[1:]))
    labels.append("given-sorted" if is_sorted else "given-unsorted")
    execs = 0

    def one(tag, vec, declared, expect_error=False):
        nonlocal execs
        execs += 1
        o, after = sut.objective_call(spec, vec, seq, declared, weights)
        if after != list(vec):
            labels.append("argument-modified-by-the-objective")      # not part of this property's statement: counted, not judged
        if expect_error:
            # the weighted objective documents no sorted fast path: refusing the flag (ValueError) is fine, and so is honouring it
            # with the right value; only a wrong value is a violation
            if not o.ok:
                if o.exc_type != "ValueError":
                    fails.append(Failure(f"{PROP}/{kind}/{tag}:wrong-exception:{o.exc_type}", o.describe()))
                return
            labels.append("weighted-objective-accepted-the-sorted-flag")
        if not o.ok:
            fails.append(Failure(f"{PROP}/{kind}/{tag}:exception:{o.exc_type}@{o.where}", o.describe()))
            return
        good = close(o.value, want) if kind == "wmaxmin" else (o.value == want)
        if not good:
            fails.append(Failure(f"{PROP}/{kind}/{tag}:wrong-value",
                                 {"sums": vec, "weights": weights, "got": sut.jsonable(o.value), "definition": sut.jsonable(want),
                                  "declared_sorted": declared}))

    if kind == "wmaxmin":
        one("any-order", sums, None)
        one("any-order-flag-false", sums, False)
        one("sorted-flag", sums, True, expect_error=True)
    else:
        asc = sorted(sums)
        one("any-order", sums, None)
        one("any-order-flag-false", sums, False)
        one("sorted-fast-path", asc, True)
        one("sorted-slow-path", asc, False)
        one("descending-slow-path", asc[::-1], False)
    distinct = len(set(sums)) >= 2
    nontrivial = distinct and sums[0] != sums[-1]
    if kind in ("klargest", "ksmallest"):
        kk = int(spec.split(":")[1])
        labels.append("k<len" if kk < len(sums) else "k>=len")
        nontrivial = nontrivial and kk < len(sums)
    if kind == "wmaxmin":
        nontrivial = nontrivial and len(set(weights)) >= 2
    return Result(fails, labels, nontrivial, None, {"definition": sut.jsonable(want)}, subcases=execs)


def evaluate_reuse(case):
    """One objective object evaluated on several vectors in order: every value must still be the documented quantity."""
    spec, weights = case["obj"], case.get("weights")
    kind = spec.split(":")[0]
    vectors = case["vectors"]
    labels = [f"reuse:obj={kind}", f"vectors={len(vectors)}"] + (["same-container-updated-in-place"] if case.get("inplace") else [])
    calls = []
    for v in vectors:
        asc = all(a <= b for a, b in zip(v, v[1:]))
        declared = True if (asc and kind != "wmaxmin" and case.get("use_fast_path")) else None
        calls.append((v, case.get("seq", "list"), declared))
    outs = sut.objective_sequence(spec, weights, calls, inplace=bool(case.get("inplace")))
    fails = []
    for i, (o, (v, _, declared)) in enumerate(zip(outs, calls)):
        w = weights[:len(v)] if weights else None
        if kind == "wmaxmin" and len(v) != len(weights):
            continue
        want = definition(spec, v, w)
        if not o.ok:
            fails.append(Failure(f"{PROP}/{kind}/reused-object:exception:{o.exc_type}@{o.where}", dict(o.describe(), index=i)))
            break
        good = close(o.value, want) if kind == "wmaxmin" else (o.value == want)
        if not good:
            fails.append(Failure(f"{PROP}/{kind}/reused-object:wrong-value",
                                 {"index": i, "sums": v, "earlier_vectors": vectors[:i], "got": sut.jsonable(o.value),
                                  "definition": sut.jsonable(want), "declared_sorted": declared}))
            break
    lens = {len(v) for v in vectors}
    nontrivial = len(vectors) >= 2 and (len(lens) >= 2 or bool(case.get("inplace")))
    if kind in ("klargest", "ksmallest"):
        kk = int(spec.split(":")[1])
        if any(len(v) < kk for v in vectors) and any(len(v) > kk for v in vectors):
            labels.append("k-between-the-vector-lengths")
    return Result(fails, labels, nontrivial, None, {"values": [sut.jsonable(o.value) if o.ok else o.describe() for o in outs]},
                  subcases=len(vectors))


@st.composite
def reuse_cases(draw):
    kind = draw(st.sampled_from(["klargest", "ksmallest", "klargest", "ksmallest", "minmax", "maxmin", "diff", "wmaxmin"]))
    nvec = draw(st.integers(2, 4))
    case = {"kind": "reuse", "seq": draw(st.sampled_from(SEQS)), "use_fast_path": draw(st.booleans())}
    if kind == "wmaxmin":
        n = draw(st.integers(1, 6))
        case["obj"], case["weights"] = kind, draw(st.lists(st.integers(1, 10), min_size=n, max_size=n))
        lens = [n] * nvec
    else:
        lens = [draw(st.integers(1, 7)) for _ in range(nvec)]
        if draw(st.integers(0, 2)) == 0:
            lens = [lens[0]] * nvec              # one container object updated in place between the evaluations
            case["inplace"] = True
        case["obj"] = f"{kind}:{draw(st.integers(1, max(lens) + 1))}" if kind in ("klargest", "ksmallest") else kind
    vectors = []
    for m in lens:
        v = draw(st.lists(st.integers(0, 30), min_size=m, max_size=m))
        if draw(st.booleans()):
            v = sorted(v)
        vectors.append(v)
    case["vectors"] = vectors
    return case


def specs_for(n, with_weights=True):
    out = ["minmax", "maxmin", "diff"]
    for k in range(1, n + 4):
        out += [f"klargest:{k}", f"ksmallest:{k}"]
    return out


@st.composite
def random_cases(draw):
    n = draw(st.integers(1, 8))
    style = draw(st.integers(0, 4))
    if style == 4:
        # sums beyond 2^53 (exact as Python ints and as int64, not as float64): the objectives are plain integer functions of the sums
        sums = S.splitmix(draw(st.integers(0, 2 ** 40)), n, 2 ** 53, 2 ** 58)
        if draw(st.booleans()) and n >= 2:
            sums[1] = sums[0] + draw(st.integers(1, 3))          # two sums that differ by less than one float64 ulp
    elif style == 0:
        sums = draw(st.lists(st.integers(0, 10), min_size=n, max_size=n))
    elif style == 1:
        sums = S.splitmix(draw(st.integers(0, 2 ** 40)), n, 0, 10 ** 6)
    elif style == 2:
        sums = draw(st.lists(st.integers(0, 10 ** 6), min_size=n, max_size=n))
    else:
        sums = sorted(S.splitmix(draw(st.integers(0, 2 ** 40)), n, 0, 1000), reverse=draw(st.booleans()))
    kind = draw(st.sampled_from(KINDS))
    case = {"sums": sums, "seq": draw(st.sampled_from(SEQS))}
    if style == 4:
        case["seq"] = draw(st.sampled_from(["list", "tuple", "iarray", "iarray"]))      # float64 cannot hold these sums
        # (the weighted objective is a quotient: compared, as everywhere, within a relative 10^-12)
    if kind in ("klargest", "ksmallest"):
        case["obj"] = f"{kind}:{draw(st.integers(1, n + 3))}"
    elif kind == "wmaxmin":
        case["obj"] = kind
        wstyle = draw(st.integers(0, 2))
        if wstyle == 0:
            case["weights"] = draw(st.lists(st.integers(1, 10), min_size=n, max_size=n))
        elif wstyle == 1:
            case["weights"] = [w / 8 for w in draw(st.lists(st.integers(1, 80), min_size=n, max_size=n))]
        else:
            case["weights"] = S.splitmix(draw(st.integers(0, 2 ** 40)), n, 1, 1000)
    else:
        case["obj"] = kind
    return case


def exhaustive_cases(tier):
    """All vectors of <= 4 entries over 0..4 x every objective (k 1..len+3; weights from {1,2,3}^len for <=3 entries) x 4
    sequence types."""
    idx = 0
    for n in range(1, 5):
        for sums in itertools.product(range(5), repeat=n):
            specs = specs_for(n)
            for spec in specs:
                for seq in SEQS:
                    idx += 1
                    if tier == "quick" and (idx * 2654435761 + env.seed()) % 8 != 0:
                        continue
                    yield {"sums": list(sums), "seq": seq, "obj": spec}
            if n <= 3:
                for w in itertools.product((1, 2, 3), repeat=n):
                    idx += 1
                    if tier == "quick" and (idx * 2654435761 + env.seed()) % 8 != 0:
                        continue
                    yield {"sums": list(sums), "seq": SEQS[idx % 4], "obj": "wmaxmin", "weights": list(w)}


def valid(case):
    if case.get("kind") == "reuse":
        vs = case.get("vectors")
        ok = isinstance(vs, list) and len(vs) >= 1 and all(isinstance(v, list) and v and all(isinstance(x, int) and x >= 0 for x in v) for v in vs)
        if not ok:
            return False
        if case.get("obj") == "wmaxmin":
            w = case.get("weights")
            return isinstance(w, list) and all(len(v) == len(w) for v in vs) and all(x > 0 for x in w)
        return True
    s = case.get("sums")
    if not isinstance(s, list) or not s or any((not isinstance(x, int)) or x < 0 for x in s):
        return False
    spec = case.get("obj", "")
    if spec == "wmaxmin":
        w = case.get("weights")
        return isinstance(w, list) and len(w) == len(s) and all(x > 0 for x in w)
    if ":" in spec:
        return int(spec.split(":")[1]) >= 1
    return spec in ("minmax", "maxmin", "diff")


def shrink_reuse(case):
    if case.get("kind") != "reuse":
        yield from runner.generic_shrink(case)
        return
    vs = case["vectors"]
    for i in range(len(vs)):
        if len(vs) > 1:
            yield dict(case, vectors=vs[:i] + vs[i + 1:])
    for i, v in enumerate(vs):
        if case.get("obj") == "wmaxmin":
            break
        for j in range(len(v)):
            if len(v) > 1:
                yield dict(case, vectors=vs[:i] + [v[:j] + v[j + 1:]] + vs[i + 1:])
            if v[j] > 0:
                yield dict(case, vectors=vs[:i] + [v[:j] + [v[j] // 2] + v[j + 1:]] + vs[i + 1:])
    if case.get("seq") != "list":
        yield dict(case, seq="list")


def legs(tier):
    rule = ("hypothesis: vector of 1-8 non-negative integer sums (0..10, evenly spread up to 10^6, already sorted ascending or "
            "descending) as list/tuple/int array/float array x objective (k in 1..len+3; weights ints, eighths); per case the "
            "objective is called on the given order (flag omitted and False), on the ascending copy with the sorted flag "
            "(fast path) and without it, and on the descending copy; oracle = my own definition in exact arithmetic "
            "(weighted: tolerance 1e-12 relative; sorted flag must raise ValueError); non-trivial = >=2 distinct entries with "
            "first != last, k < len for the k-objectives, >=2 distinct weights for the weighted objective")
    return [
        Leg("corpus", evaluate, "docstring vectors", corpus=common.load_corpus(PROP), valid=valid, shards=1),
        Leg("random", evaluate, rule, strategy=random_cases(), n_quick=10000, n_thorough=200000, valid=valid, floor=0.3),
        Leg("reused-object", evaluate,
            "hypothesis: ONE objective object (k-largest / k-smallest with k up to max length + 1, weighted, and the three singletons) "
            "evaluated on 2-4 vectors of different lengths in order (some shorter than k), with and without the sorted fast path: "
            "every value must equal the definition (an object that keeps state between evaluations shows as a wrong later value); "
            "in a third of the cases the vectors are written into one container object in place; non-trivial = >= 2 vectors of different "
            "lengths, or updated in place", strategy=reuse_cases(), n_quick=3000, n_thorough=60000, valid=valid,
            shrink=shrink_reuse, floor=0.3),
        Leg("exhaustive-small", evaluate,
            "all vectors of <=4 entries over 0..4 x every objective (k in 1..len+3) x 4 sequence types, and all weight "
            "vectors over {1,2,3} for <=3 entries (quick: 1/8 slice); same rule",
            enum=exhaustive_cases, valid=valid, exhaustive=True,
            scope="vectors(<=4 entries over 0..4) x objectives x sequence types"),
    ]


def main():
    return runner.run_check(PROP, legs(env.tier()), level="exploration", assumptions=[
        "non-negative integer sums up to 10^6, and - as lists, tuples and int64 arrays - up to 2^58 (totals stay below 2^63)",
        "weighted objective compared with the exact rational value within 1e-12 relative tolerance (one float division)",
    ])
