"""
C03 - bin-packing results are feasible packings of exactly the input items.
"""
import math

from hypothesis import strategies as st

from .. import fuzz_target, cases, common, env, oracles, preds, refmodels, runner, strategies as S, sut
from ..runner import Failure, Leg, Result

PROP = "C03"


def evaluate(case):
    alg, C, values = case["alg"], case["binsize"], case["values"]
    den = case.get("den", 1)
    binsize = sut.num(sut.binsize_of(case))
    labels = [f"alg={alg}", f"pres={case.get('pres', 'list')}", f"profile={case.get('profile', '-')}",
              f"den={den}"] + S.value_labels(values)
    fails = []
    p, o = sut.run_case(case, "Partition")
    nbins = None
    if not o.ok:
        fails.append(Failure(common.exception_bucket(PROP, alg, o), o.describe()))
    else:
        bins = o.value
        nbins = len(bins)
        fails += common.failures_from(PROP, alg, preds.packing_problems(p, bins, binsize, may_drop_zeros=(alg == "bc")))
        # the other output types of the same call: the reported number of bins is the number of returned bins
        for ot in case.get("outputtypes", ["BinCount", "Sums"]):
            p2, o2 = sut.run_case(case, ot)
            if (not o2.ok and nbins == 0 and o2.exc_type == "ValueError"
                    and ot in ("LargestSum", "SmallestSum", "ExtremeSums", "Difference")
                    and o2.where == "outputtypes.extract_output_from_sums"):
                labels.append("extreme-of-zero-bins-refused")    # max/min of no bins is undefined; refusing is not a wrong answer
                continue
            if not o2.ok:
                fails.append(Failure(f"{PROP}/{alg}/{ot}:exception:{o2.exc_type}@{o2.where}", o2.describe()))
                continue
            v = o2.value
            if ot == "BinCount":
                count = v
            elif ot in ("Sums", "SortedSums"):
                count = len(v)
                if any(s > binsize for s in v):
                    fails.append(Failure(f"{PROP}/{alg}/{ot}:bin-overfull", {"sums": sut.jsonable(v)}))
                if sum(v) != sum(p.value(nm) for nm in p.names):
                    fails.append(Failure(f"{PROP}/{alg}/{ot}:total-differs", {"sums": sut.jsonable(v)}))
            elif ot in ("PartitionAndSumsTuple", "PartitionAndSums"):
                count = len(v[1])
                if len(v[0]) != len(v[1]):
                    fails.append(Failure(f"{PROP}/{alg}/{ot}:sums-and-bins-differ-in-length", {}))
                fails += [Failure(f.bucket.replace(f"{PROP}/{alg}/", f"{PROP}/{alg}/{ot}:"), f.detail) for f in
                          common.failures_from(PROP, alg, preds.packing_problems(p2, v[1], binsize, alg == "bc"))]
            elif ot in ("LargestSum", "SmallestSum", "Difference"):
                count = None
                if ot == "LargestSum" and v > binsize:
                    fails.append(Failure(f"{PROP}/{alg}/{ot}:bin-overfull", {"largest": sut.jsonable(v)}))
            else:    # ExtremeSums
                count = None
                if v[1] > binsize:
                    fails.append(Failure(f"{PROP}/{alg}/{ot}:bin-overfull", {"extreme": sut.jsonable(v)}))
            if count is not None and count != nbins:
                fails.append(Failure(f"{PROP}/{alg}/{ot}:count-differs-from-partition",
                                     {"partition_bins": nbins, ot: sut.jsonable(v)}))
    # non-triviality, measured with the reference heuristics only
    ev = sut.exact_values(values, den)
    ref_bfd = len(refmodels.best_fit_decreasing([v for v in ev if v != 0], binsize))
    lb = math.ceil(sum(ev) / binsize)
    search_entered = ref_bfd > lb
    if search_entered:
        labels.append("BFD>lower-bound")
    nontrivial = ref_bfd >= 2 and (alg != "bc" or search_entered)
    summary = o.describe() if not o.ok else {"bins": sut.jsonable(o.value)}
    return Result(fails, labels, nontrivial, None, summary)


@st.composite
def random_cases(draw):
    case = draw(cases.packing_cases())
    ots = ["BinCount", "Sums"]
    extra = draw(st.sampled_from(sorted(sut.OUTPUT_TYPES)))
    if extra not in ots and extra != "Partition":
        ots.append(extra)
    case["outputtypes"] = ots
    return case


@st.composite
def bc_search_cases(draw):
    """bin_completion on the two families on which its search actually runs."""
    C = draw(st.sampled_from([10, 12, 20, 20, 30, 50, 100]))
    fam = draw(st.sampled_from(["planted", "many-equal", "uniform-mid", "hard", "hard"]))
    if fam == "hard":
        C = max(C, 12)
        fam, values, _ = draw(S.hard_packing(C, max_bins=3, max_len=11))
    elif fam == "planted":
        values = draw(S.planted_packing(C, max_bins=4, max_len=11))
    elif fam == "many-equal":
        pool = draw(st.lists(st.integers(max(1, C // 5), max(1, C // 2 + 1)), min_size=2, max_size=3))
        values = draw(st.lists(st.sampled_from(pool), min_size=6, max_size=11))
    else:
        values = S.splitmix(draw(st.integers(0, 2 ** 40)), draw(st.integers(6, 11)), max(1, C // 6), (2 * C) // 3)
    if draw(st.integers(0, 4)) == 0:
        values = values + [0]
    return {"alg": "bc", "values": values, "binsize": C, "pres": draw(st.sampled_from(["list", "list", "dict-str", "array"])),
            "nseed": draw(st.integers(0, 5)), "profile": "bc-" + fam,
            "outputtypes": ["BinCount", "Sums", draw(st.sampled_from(["SortedSums", "PartitionAndSumsTuple", "LargestSum"]))]}


@st.composite
def larger_cases(draw):
    """The four fit heuristics on 15-150 items (cheap at any size): size thresholds, many bins, long runs of equal items."""
    alg = draw(st.sampled_from(["ff", "ffd", "bf", "bfd"]))
    C = draw(S.binsizes())
    profile, values = draw(S.packing_values(C, 15, draw(st.sampled_from([40, 80, 150]))))
    case = {"alg": alg, "values": values, "binsize": C, "nseed": draw(st.integers(0, 5)), "profile": "large-" + profile,
            "pres": draw(st.sampled_from(["list", "list", "array", "dict-str", "dict-int", "names", "names-array"])),
            "outputtypes": ["BinCount", "Sums", draw(st.sampled_from(["SortedSums", "PartitionAndSumsTuple", "LargestSum", "ExtremeSums"]))]}
    if draw(st.integers(0, 4)) == 0:
        case["den"] = 8
    return case


def legs(tier):
    return [
        Leg("corpus", evaluate, "committed regression inputs (cited instances, inputs that exposed repaired defects)",
            corpus=common.load_corpus(PROP), valid=cases.valid_packing_case, shards=2),
        Leg("random", evaluate,
            "hypothesis: (ff|ffd|bf|bfd|bin_completion, bin size, items 0..binsize from 6 profiles incl. thresholds and "
            "planted-perfect, ints or eighths, 5 presentations, extra output type); non-trivial = needs >= 2 bins, and "
            "for bin_completion additionally BFD uses more bins than ceil(total/binsize) (its search is entered)",
            strategy=random_cases(), n_quick=6000, n_thorough=150000, valid=cases.valid_packing_case, floor=0.3),
        Leg("larger", evaluate, "hypothesis: ff | ffd | bf | bfd on 15-150 items, seven presentations, ints or eighths; same predicates; "
            "non-trivial = needs >= 2 bins", strategy=larger_cases(), n_quick=2000, n_thorough=40000, valid=cases.valid_packing_case, floor=0.3),
        Leg("bc-search", evaluate,
            "hypothesis: bin_completion on planted-perfect (with slack), many-equal and mid-size uniform inputs, the "
            "classes where BFD does not meet the lower bound; same non-triviality rule",
            strategy=bc_search_cases(), n_quick=1500, n_thorough=30000, valid=cases.valid_packing_case, floor=0.1),
        fuzz_target.fuzz_leg(PROP, 80000, evaluate, cases.valid_packing_case),
    ]


def main():
    return runner.run_check(PROP, legs(env.tier()), level="exploration", assumptions=[
        "0 <= value <= binsize; fractions are multiples of 1/8 (exact in float64); bin_completion gets integers, <= 11 items "
        "(its completion generator enumerates all subsets)",
        "names inside one input are homogeneous",
    ])
