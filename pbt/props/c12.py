"""
C12 - balanced 2-way partitioning obeys the cardinality bound and is optimal under it.
"""
import itertools

from hypothesis import strategies as st

from .. import cases, common, env, oracles, preds, runner, strategies as S, sut
from ..runner import Failure, Leg, Result

PROP = "C12"


def evaluate(case):
    values = case["values"]
    d = (case.get("opts") or {}).get("partition_difference")
    labels = [f"pres={case.get('pres', 'list')}", f"profile={case.get('profile', '-')}", f"d={d if d is None or d <= 4 else '>4'}"]
    labels += S.value_labels(values)
    if len(set(values)) == 1 and values[0] == 1:
        labels.append("all-ones")
    p, o = sut.run_case(case, "PartitionAndSumsTuple")
    fails = []
    want = oracles.opt_balanced(values, d)
    free = oracles.opt_balanced(values, None)
    summary = o.describe()
    if not o.ok:
        fails.append(Failure(common.exception_bucket(PROP, "cbldm", o), o.describe()))
    else:
        sums, bins = o.value
        probs = preds.partition_problems(p, bins, 2)
        if not probs:
            real = preds.bin_sums(p, bins)
            if sorted(real) != sorted(sums):
                probs.append(("sums-do-not-describe-bins", f"{sums} vs {real}"))
            gap = abs(len(bins[0]) - len(bins[1]))
            if d is not None and gap > d:
                probs.append(("cardinality-bound-exceeded", f"|{len(bins[0])}-{len(bins[1])}| = {gap} > {d}"))
            got = abs(real[0] - real[1])
            if got > want:
                probs.append(("suboptimal-under-the-bound", f"difference {got}, optimum under bound {d} is {want}"))
            elif got < want and not (d is not None and gap > d):
                probs.append(("better-than-possible", f"difference {got} < oracle {want}: oracle or sums are wrong"))
            summary = {"bins": sut.jsonable(bins), "difference": sut.jsonable(got), "optimum": want, "unconstrained": free}
        fails += common.failures_from(PROP, "cbldm", probs)
    binds = d is not None and want > free
    if binds:
        labels.append("bound-binds")
    return Result(fails, labels, binds, None, summary)


@st.composite
def random_cases(draw):
    profile, values = draw(S.values_lists(1, 12, numbins=2, profiles=["tiny", "tiny", "small", "medium", "large", "huge",
                                                                      "all-equal", "two-valued", "one-dominant",
                                                                      "one-dominant", "planted", "arithmetic", "skewed"]))
    style = draw(st.integers(0, 5))
    if style == 0:
        d = None
    elif style <= 3:
        d = draw(st.sampled_from([1, 1, 2, 3]))
    else:
        d = draw(st.integers(1, len(values) + 2))
    case = {"alg": "cbldm", "values": values, "numbins": 2, "pres": draw(S.presentations()), "nseed": draw(st.integers(0, 5)),
            "profile": profile}
    if d is not None:
        case["opts"] = {"partition_difference": d}
    return case


def exhaustive_cases(tier):
    """All multisets of <= 8 values from 0..4 x bound 1..4 (complete in both tiers)."""
    for n in range(1, 9):
        for values in itertools.combinations_with_replacement(range(0, 5), n):
            for d in (1, 2, 3, 4):
                yield {"alg": "cbldm", "values": list(values), "numbins": 2, "pres": "list", "nseed": 0,
                       "opts": {"partition_difference": d}}


def skewed_cases(tier):
    """A few big items and many small ones, <= 9 items: the class where the cardinality bound binds (thorough only beyond
    a slice): every multiset of <= 3 'big' values from {7,9,10,13} joined with every multiset of <= 6 'small' from {1,2,3}."""
    idx = 0
    for nb in range(1, 4):
        for big in itertools.combinations_with_replacement((7, 9, 10, 13), nb):
            for ns in range(1, 7):
                for small in itertools.combinations_with_replacement((1, 2, 3), ns):
                    for d in (1, 2, 3):
                        idx += 1
                        if tier == "quick" and (idx * 2654435761 + env.seed()) % 6 != 0:
                            continue
                        yield {"alg": "cbldm", "values": list(big + small), "numbins": 2, "pres": "list", "nseed": 0,
                               "opts": {"partition_difference": d}}


@st.composite
def larger_cases(draw):
    """13-17 items: beyond 2^n brute force, still exact with the (count, sum) DP oracle."""
    n = draw(st.integers(13, 17))
    style = draw(st.sampled_from(["uniform-100", "uniform-1000", "skewed", "skewed", "ties"]))
    seed = draw(st.integers(0, 2 ** 40))
    if style == "uniform-100":
        values = S.splitmix(seed, n, 0, 100)
    elif style == "uniform-1000":
        values = S.splitmix(seed, n, 1, 1000)
    elif style == "skewed":
        nbig = draw(st.integers(1, 4))
        values = S.splitmix(seed, nbig, 20, 90) + S.splitmix(seed + 1, n - nbig, 1, 4)
        values = list(draw(st.permutations(values)))
    else:
        pool = draw(st.lists(st.integers(1, 12), min_size=2, max_size=3))
        values = [pool[i % len(pool)] for i in S.splitmix(seed, n, 0, 5)]
    d = draw(st.sampled_from([None, 1, 1, 2, 3]))
    case = {"alg": "cbldm", "values": values, "numbins": 2, "pres": draw(st.sampled_from(["list", "list", "dict-str", "dict-int", "names-array"])),
            "nseed": draw(st.integers(0, 5)), "profile": "larger-" + style}
    if d is not None:
        case["opts"] = {"partition_difference": d}
    return case


def _binding_candidate(style, seed):
    m = 5 + seed % 4
    smalls = S.splitmix(seed, m, 0, 20)
    total = sum(smalls)
    r = S.splitmix(seed + 7, 3, 0, 8)
    if style == "half":            # one item of about half the rest
        vals = smalls + [max(1, total // 2 + r[0] - 4)]
    elif style == "two":           # two items that together about match the rest
        a = total // 3 + (r[1] * max(1, total // 3)) // 8
        vals = smalls + [max(1, a), max(1, total - a - r[0])]
    else:                          # one or two big items among small ones
        nb = 1 + seed % 2
        vals = S.splitmix(seed + 3, nb, 15, 45) + smalls
    keys = S.splitmix(seed + 11, len(vals), 0, 2 ** 30)
    return [vals[i] for i in sorted(range(len(vals)), key=lambda i: (keys[i], i))]


@st.composite
def binding_cases(draw):
    """Inputs on which the cardinality bound really binds (constrained optimum > unconstrained optimum), built by expanding a drawn seed
    until a candidate binds: a few big items worth about half / all of many small ones.  Construction, not rejection: the strategy
    always returns a case, and nearly always a binding one."""
    style = draw(st.sampled_from(["half", "half", "two", "big+small"]))
    d = draw(st.sampled_from([1, 1, 2]))
    seed = draw(st.integers(0, 2 ** 40))
    values = None
    for i in range(40):
        values = _binding_candidate(style, seed + 1000003 * i)
        if oracles.opt_balanced(values, d) > oracles.opt_balanced(values, None):
            break
    return {"alg": "cbldm", "values": values, "numbins": 2, "pres": draw(st.sampled_from(["list", "list", "list", "dict-str"])),
            "nseed": draw(st.integers(0, 5)), "profile": "binding-" + style, "opts": {"partition_difference": d}}


def valid_larger(case):
    if not cases.valid_partition_case(dict(case, alg="greedy")) or case.get("numbins") != 2:
        return False
    d = (case.get("opts") or {}).get("partition_difference")
    return (d is None or (isinstance(d, int) and d >= 1)) and len(case["values"]) <= 18


def valid(case):
    if not cases.valid_partition_case(dict(case, alg="cbldm")):
        return False
    d = (case.get("opts") or {}).get("partition_difference")
    return (d is None or (isinstance(d, int) and d >= 1)) and len(case["values"]) <= 14


@st.composite
def one_huge_cases(draw):
    """One item far larger than all the others together (10^6 ... 2^45) among 3-9 small ones: every partition has a huge difference, and
    the good ones differ from the bad ones by a few units - a relative 10^-9 ... 10^-13 of the value compared."""
    seed = draw(st.integers(0, 2 ** 48))
    n = 3 + seed % 7
    small = S.splitmix(seed >> 4, n, 0 if (seed >> 3) % 4 == 0 else 1, [10, 100, 100, 1000][(seed >> 8) % 4])
    huge = [10 ** 6, 10 ** 9, 10 ** 10, 10 ** 12, 2 ** 40, 2 ** 45][(seed >> 10) % 6] + (seed >> 14) % 1000
    pos = (seed >> 24) % (n + 1)
    values = small[:pos] + [huge] + small[pos:]
    case = {"alg": "cbldm", "values": values, "numbins": 2, "pres": draw(st.sampled_from(["list", "list", "dict-str", "names"])),
            "nseed": draw(st.integers(0, 3)), "profile": "one-huge-item"}
    d = [None, 1, 1, 2, 3][(seed >> 30) % 5]
    if d is not None:
        case["opts"] = {"partition_difference": d}
    return case


def legs(tier):
    return [
        Leg("corpus", evaluate, "docstring inputs and the author's all-ones instance", corpus=common.load_corpus(PROP),
            valid=valid, shards=1),
        Leg("random", evaluate,
            "hypothesis: cbldm on 1-12 non-negative ints (zeros, repeats, all-ones, one-dominant, planted ...), cardinality "
            "bound default / 1 / 2 / 3 / random <= n+2, five presentations; oracle: valid 2-partition, |len A - len B| <= "
            "bound, |sum A - sum B| == minimum over all subsets obeying the bound (DP over (count,sum) states); non-trivial "
            "= the bound binds (constrained optimum > unconstrained optimum)",
            strategy=random_cases(), n_quick=5000, n_thorough=100000, valid=valid, floor=0.03),
        Leg("binding", evaluate, "hypothesis: 6-10 items built so that the bound (1 or 2) binds - one item of about half the rest, two items "
            "that together about match the rest, one or two big items among small ones; same oracle and rule",
            strategy=binding_cases(), n_quick=6000, n_thorough=120000, valid=valid, floor=0.5),
        Leg("one-huge-item", evaluate, "hypothesis: one item of 10^6 ... 2^45 among 3-9 small ones, bound default / 1 / 2 / 3: differences of "
            "10^6 ... 10^13 that good and bad partitions change by a few units; same oracle and rule",
            strategy=one_huge_cases(), n_quick=1500, n_thorough=30000, valid=valid, floor=0.03),
        Leg("larger", evaluate, "hypothesis: 13-17 items (values 0..100, 1..1000, few big + many small, 2-3 distinct values), bound default / 1 / 2 / 3: "
            "beyond 2^n brute force, exact with the DP oracle; same rule", strategy=larger_cases(), n_quick=500, n_thorough=10000,
            valid=valid_larger, floor=0.03),
        Leg("exhaustive-small", evaluate, "every multiset of <=8 values from 0..4 x bound 1..4, complete in both tiers; same rule",
            enum=exhaustive_cases, valid=valid, exhaustive="both", scope="multisets(<=8 from 0..4) x bound 1..4"),
        Leg("exhaustive-skewed", evaluate,
            "every multiset of <=3 big values from {7,9,10,13} joined with <=6 small values from {1,2,3} x bound 1..3 "
            "(quick: 1/6 slice); same rule",
            enum=skewed_cases, valid=valid, exhaustive=True, scope="multisets(<=3 of {7,9,10,13}) + multisets(<=6 of {1,2,3}) x bound 1..3"),
    ]


def main():
    oracles.validate_oracles(("balanced",))
    return runner.run_check(PROP, legs(env.tier()), level="exploration", assumptions=[
        "no time limit", "oracle = DP over (cardinality, sum) states, validated against 2^n brute force at start",
        "bin sums exact in float64"])
