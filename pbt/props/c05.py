"""
C05 - bin-covering results are valid covers that waste less than one bin.
"""
from hypothesis import strategies as st

from .. import cases, common, env, preds, refmodels, runner, strategies as S, sut
from ..runner import Failure, Leg, Result

PROP = "C05"
PRES = ["list", "list", "array", "dict-str", "dict-int", "names", "names-array"]


def evaluate(case):
    alg, C, values = case["alg"], case["binsize"], case["values"]
    labels = [f"alg={alg}", f"pres={case.get('pres', 'list')}", f"profile={case.get('profile', '-')}"]
    labels += S.value_labels(values)
    if any(v > C for v in values):
        labels.append("has-item>binsize")
    p, o = sut.run_case(case, "Partition")
    fails = []
    if not o.ok:
        fails.append(Failure(common.exception_bucket(PROP, alg, o), o.describe()))
        nb, used = 0, 0
    else:
        fails += common.failures_from(PROP, alg, preds.cover_problems(p, o.value, C))
        nb, used = len(o.value), sum(len(b) for b in o.value)
    # non-trivial (measured on the reference model, not on the code under test): >= 1 bin covered, >= 1 item left over
    ref = refmodels.REFERENCE[alg](values, C)
    nontrivial = len(ref) >= 1 and sum(len(b) for b in ref) < len(values)
    if sum(values) < C:
        labels.append("too-small-to-cover")
    return Result(fails, labels, nontrivial, None, o.describe() if not o.ok else {"bins": sut.jsonable(o.value)})


@st.composite
def threshold_cases(draw):
    """Values sitting on the class boundaries binsize/2 and binsize/3 (+-1), for bin sizes divisible and not by 2, 3."""
    C = draw(st.sampled_from([6, 9, 10, 12, 13, 14, 15, 18, 20, 30, 60, 100]))
    pool = sorted({x for x in (C // 2 - 1, C // 2, C // 2 + 1, (C + 1) // 2, C // 3 - 1, C // 3, C // 3 + 1,
                               (C + 2) // 3, 1, 2, C - 1, C, C + 1) if x >= 1})
    values = draw(st.lists(st.sampled_from(pool), min_size=2, max_size=14))
    return {"alg": draw(st.sampled_from(cases.COVERERS)), "values": values, "binsize": C,
            "pres": draw(st.sampled_from(PRES)), "nseed": draw(st.integers(0, 5)), "profile": "class-thresholds"}


def legs(tier):
    return [
        Leg("corpus", evaluate, "committed regression inputs", corpus=common.load_corpus(PROP),
            valid=cases.valid_covering_case, shards=2),
        Leg("random", evaluate,
            "hypothesis: (decreasing|twothirds|threequarters, bin size, positive ints from 6 profiles incl. items above the "
            "bin size and inputs too small to cover anything, 5 presentations); non-trivial = the reference model covers "
            ">= 1 bin and leaves >= 1 item unused",
            strategy=cases.covering_cases(presentations=PRES), n_quick=6000, n_thorough=150000,
            valid=cases.valid_covering_case, floor=0.15),
        Leg("thresholds", evaluate, "hypothesis: values at binsize/2, binsize/3 (+-1) for 12 bin sizes; same rule",
            strategy=threshold_cases(), n_quick=2500, n_thorough=50000, valid=cases.valid_covering_case, floor=0.15),
    ]


def main():
    return runner.run_check(PROP, legs(env.tier()), level="exploration", assumptions=[
        "positive integer values (items larger than the bin size allowed)", "names inside one input are homogeneous"])
