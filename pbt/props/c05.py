"""
C05 - bin-covering results are valid covers that waste less than one bin.
"""
from hypothesis import strategies as st

from .. import cases, common, env, preds, refmodels, runner, strategies as S, sut
from ..runner import Failure, Leg, Result

PROP = "C05"
PRES = ["list", "list", "array", "dict-str", "dict-int", "names", "names-array", "dict-mixed"]


def evaluate(case):
    alg, C, values = case["alg"], case["binsize"], case["values"]
    labels = [f"alg={alg}", f"pres={case.get('pres', 'list')}", f"profile={case.get('profile', '-')}"]
    labels += S.value_labels(values)
    if any(v > C for v in values):
        labels.append("has-item>binsize")
    p, o = sut.run_case(case, "Partition")
    fails = []
    if not o.ok:
        fails.append(Failure(common.exception_bucket(PROP, alg, o), o.describe()))
        nb, used = 0, 0
    else:
        fails += common.failures_from(PROP, alg, preds.cover_problems(p, o.value, C))
        nb, used = len(o.value), sum(len(b) for b in o.value)
    # the same call through the output types that keep only sums (another bins-manager): still bins of at least the bin size, made of
    # input value, leaving less than one bin size unused
    total = sum(values)
    for ot in case.get("outputtypes", ["Sums", "BinCount"]):
        p2, o2 = sut.run_case(case, ot)
        if not o2.ok:
            fails.append(Failure(f"{PROP}/{alg}/{ot}:exception:{o2.exc_type}@{o2.where}", o2.describe()))
            continue
        if ot == "BinCount":
            # n covered bins use at least n * binsize (that the count equals the number of returned bins is C06's statement, not this one's)
            if o2.value * C > total:
                fails.append(Failure(f"{PROP}/{alg}/BinCount:more-bins-than-the-total-can-cover", {"bins": o2.value, "total": total}))
        else:
            sums = list(o2.value)
            if any(s_ < C for s_ in sums):
                fails.append(Failure(f"{PROP}/{alg}/{ot}:bin-not-covered", {"sums": sut.jsonable(sums)}))
            if sum(sums) > total:
                fails.append(Failure(f"{PROP}/{alg}/{ot}:sums-exceed-the-input", {"sums": sut.jsonable(sums), "total": total}))
            elif total - sum(sums) >= C:
                fails.append(Failure(f"{PROP}/{alg}/{ot}:a-whole-bin-size-left-unused", {"sums": sut.jsonable(sums), "total": total}))
    # non-trivial (measured on the reference model, not on the code under test): >= 1 bin covered, >= 1 item left over
    ref = refmodels.REFERENCE[alg](values, C)
    nontrivial = len(ref) >= 1 and sum(len(b) for b in ref) < len(values)
    if sum(values) < C:
        labels.append("too-small-to-cover")
    return Result(fails, labels, nontrivial, None, o.describe() if not o.ok else {"bins": sut.jsonable(o.value)}, subcases=3)


@st.composite
def threshold_cases(draw):
    """Values sitting on the class boundaries binsize/2 and binsize/3 (+-1), for bin sizes divisible and not by 2, 3."""
    C = draw(st.sampled_from([6, 9, 10, 12, 13, 14, 15, 18, 20, 30, 60, 100]))
    pool = sorted({x for x in (C // 2 - 1, C // 2, C // 2 + 1, (C + 1) // 2, C // 3 - 1, C // 3, C // 3 + 1,
                               (C + 2) // 3, 1, 2, C - 1, C, C + 1) if x >= 1})
    values = draw(st.lists(st.sampled_from(pool), min_size=2, max_size=14))
    return {"alg": draw(st.sampled_from(cases.COVERERS)), "values": values, "binsize": C,
            "pres": draw(st.sampled_from(PRES)), "nseed": draw(st.integers(0, 5)), "profile": "class-thresholds"}


@st.composite
def larger_cases(draw):
    """15-80 items, so that a dozen or several dozen bins are covered (block-wise bookkeeping, buffers that grow, the last bin of a block)."""
    alg = draw(st.sampled_from(cases.COVERERS))
    C = draw(st.sampled_from([5, 10, 12, 20, 30, 100]))
    n = draw(st.integers(15, 80))
    style = draw(st.sampled_from(["uniform", "small", "big", "exact-fills", "all-equal"]))
    seed = draw(st.integers(0, 2 ** 40))
    if style == "uniform":
        values = S.splitmix(seed, n, 1, C)
    elif style == "small":
        values = S.splitmix(seed, n, 1, max(1, C // 3))
    elif style == "big":
        values = S.splitmix(seed, n, max(1, C // 2), 2 * C)
    elif style == "exact-fills":
        values = []
        for i in range(n // 2):
            a = 1 + S.splitmix(seed + i, 1, 0, C - 2)[0] if C > 2 else 1
            values += [a, C - a]
        keys = S.splitmix(seed + 99, len(values), 0, 2 ** 30)
        values = [values[i] for i in sorted(range(len(values)), key=lambda i: (keys[i], i))]
    else:
        values = [draw(st.sampled_from([1, C // 2 or 1, C, C + 1, 2]))] * n
    values = [v for v in values if v >= 1] or [1]
    return {"alg": alg, "values": values, "binsize": C, "pres": draw(st.sampled_from(PRES)), "nseed": draw(st.integers(0, 5)),
            "profile": "larger-" + style}


def legs(tier):
    return [
        Leg("corpus", evaluate, "committed regression inputs", corpus=common.load_corpus(PROP),
            valid=cases.valid_covering_case, shards=2),
        Leg("random", evaluate,
            "hypothesis: (decreasing|twothirds|threequarters, bin size, positive ints from 6 profiles incl. items above the "
            "bin size and inputs too small to cover anything, 5 presentations); non-trivial = the reference model covers "
            ">= 1 bin and leaves >= 1 item unused",
            strategy=cases.covering_cases(presentations=PRES), n_quick=6000, n_thorough=150000,
            valid=cases.valid_covering_case, floor=0.15),
        Leg("thresholds", evaluate, "hypothesis: values at binsize/2, binsize/3 (+-1) for 12 bin sizes; same rule",
            strategy=threshold_cases(), n_quick=2500, n_thorough=50000, valid=cases.valid_covering_case, floor=0.15),
        Leg("larger", evaluate, "hypothesis: 15-80 positive ints (uniform, small, big, exact fills, all equal) so that many bins are covered; same oracle and rule",
            strategy=larger_cases(), n_quick=2500, n_thorough=50000, valid=cases.valid_covering_case, floor=0.1),
    ]


def main():
    return runner.run_check(PROP, legs(env.tier()), level="exploration", assumptions=[
        "positive integer values (items larger than the bin size allowed)", "names inside one input are homogeneous"])
