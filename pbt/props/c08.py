"""
C08 - partitioning heuristics meet their proven worst-case guarantees.
"""
from fractions import Fraction

from hypothesis import strategies as st

from .. import cases, common, env, oracles, preds, runner, strategies as S, sut
from ..runner import Failure, Leg, Result

PROP = "C08"
ALGS = ["greedy", "kk", "multifit", "roundrobin"]


def optimum(case):
    """(OPTmax, OPTmin) - from the construction if the case carries it, else from the exhaustive oracle."""
    if "known_opt" in case:
        return case["known_opt"]["max"], case["known_opt"]["min"]
    v, k = case["values"], case["numbins"]
    return oracles.opt(v, k, "minmax"), oracles.opt(v, k, "maxmin")


def evaluate(case):
    alg, k, values = case["alg"], case["numbins"], case["values"]
    labels = [f"alg={alg}", f"profile={case.get('profile', '-')}", f"k={min(k, 9)}"] + S.value_labels(values, k)
    p, o = sut.run_case(case, "PartitionAndSumsTuple")
    if not o.ok:
        return Result([Failure(common.exception_bucket(PROP, alg, o), o.describe())], labels, False, None, o.describe())
    sums_reported, bins = o.value
    probs = preds.partition_problems(p, bins, k, may_return_fewer=(alg == "multifit"))
    if probs:
        return Result(common.failures_from(PROP, alg, [("not-a-partition:" + r, d) for r, d in probs]), labels, False, None,
                      o.describe())
    sums = preds.bin_sums(p, bins)
    sums = sums + [0] * (k - len(sums))           # multifit may leave bins unopened: they are empty bins of the partition
    hi, lo, big = max(sums), min(sums), max(values)
    fails, score = [], None
    optmax, optmin = optimum(case)
    detail = {"sums": sut.jsonable(sums), "opt_largest": optmax, "opt_smallest": optmin, "largest_item": big}
    if hi < optmax or lo > optmin:
        raise env.HarnessError(f"oracle optimum beaten by {alg} on {case}: sums {sums}, optmax {optmax}, optmin {optmin}")
    if alg in ("greedy", "kk") and k >= 2:
        bound = Fraction(4, 3) - Fraction(1, 3 * k)
        if hi > bound * optmax:
            fails.append(Failure(f"{PROP}/{alg}/largest-sum-above-(4/3-1/3k)-optimum", dict(detail, bound=float(bound))))
        score = float(Fraction(hi, optmax) / bound) if optmax else None
    if alg == "greedy" and k >= 2:
        bound = Fraction(3 * k - 1, 4 * k - 2)
        if lo < bound * optmin:
            fails.append(Failure(f"{PROP}/greedy/smallest-sum-below-(3k-1)/(4k-2)-optimum", dict(detail, bound=float(bound))))
    if alg == "multifit" and k >= 2:
        it = (case.get("opts") or {}).get("iterations", 10)
        bound = Fraction(122, 100) + Fraction(1, 2 ** it)
        if hi > bound * optmax:
            fails.append(Failure(f"{PROP}/multifit/largest-sum-above-(1.22+2^-iterations)-optimum",
                                 dict(detail, bound=float(bound), iterations=it)))
        score = float(Fraction(hi, optmax) / bound) if optmax else None
        labels.append(f"iterations={it}")
    if alg in ("greedy", "kk", "roundrobin"):
        if hi - lo > big:
            fails.append(Failure(f"{PROP}/{alg}/gap-exceeds-largest-item", detail))
    if alg == "roundrobin":
        raw = preds.bin_sums(p, bins)
        if any(raw[i] < raw[i + 1] for i in range(len(raw) - 1)):
            fails.append(Failure(f"{PROP}/roundrobin/sums-not-non-increasing-in-bin-index", detail))
        cards = [len(b) for b in bins]
        if max(cards) - min(cards) > 1:
            fails.append(Failure(f"{PROP}/roundrobin/cardinalities-differ-by-more-than-one", dict(detail, cardinalities=cards)))
        score = float(Fraction(hi - lo, big)) if big else None
    if alg == "roundrobin":
        nontrivial = len(values) > k >= 2 and len(set(values)) >= 2
    else:
        nontrivial = k >= 2 and (hi > optmax or lo < optmin)
    if nontrivial:
        labels.append("heuristic-not-optimal")
    return Result(fails, labels, nontrivial, None, detail, score=score)


PRES = ["list", "list", "list", "array", "dict-str", "dict-int", "names", "names-array", "dict-mixed"]


@st.composite
def small_cases(draw):
    case = draw(cases.partition_cases(algs=ALGS, oracle=True, max_bins=6, presentations=PRES,
                                      profiles=["tiny", "small", "small", "medium", "medium", "large", "two-valued", "one-dominant",
                                                "planted", "arithmetic", "all-equal", "near-equal-large", "mirrored"]))
    if case["alg"] == "multifit":
        case["opts"] = {"iterations": draw(st.sampled_from([0, 1, 1, 2, 2, 3, 4, 5, 8, 10, 12]))}
    return case


@st.composite
def planted_large(draw):
    """k bins of equal sum S cut into random parts: OPTmax = OPTmin = S by construction; up to ~300 items."""
    alg = draw(st.sampled_from(ALGS))
    k = draw(st.integers(2, 10))
    Ssum = draw(st.sampled_from([30, 60, 100, 360, 1000, 10 ** 4, 10 ** 6]))
    style = draw(st.sampled_from(["few-parts", "many-parts", "mixed"]))
    parts = []
    for _ in range(k):
        if style == "few-parts":
            m = draw(st.integers(2, 4))
        elif style == "many-parts":
            m = draw(st.integers(5, min(30, Ssum)))
        else:
            m = draw(st.integers(1, min(30, Ssum)))
        cuts = sorted(S.splitmix(draw(st.integers(0, 2 ** 40)), m - 1, 1, Ssum - 1)) if m > 1 else []
        prev = 0
        for c in cuts + [Ssum]:
            if c - prev > 0:
                parts.append(c - prev)
            prev = c
    order = draw(st.sampled_from(["shuffled", "ascending", "as-built"]))
    if order == "shuffled":
        keys = S.splitmix(draw(st.integers(0, 2 ** 40)), len(parts), 0, 2 ** 40)
        parts = [parts[i] for i in sorted(range(len(parts)), key=lambda i: (keys[i], i))]
    elif order == "ascending":
        parts = sorted(parts)
    case = {"alg": alg, "values": parts, "numbins": k, "pres": draw(st.sampled_from(PRES)), "nseed": draw(st.integers(0, 5)),
            "profile": "planted-" + style, "known_opt": {"max": Ssum, "min": Ssum}}
    if alg == "multifit":
        case["opts"] = {"iterations": draw(st.sampled_from([0, 1, 2, 3, 5, 8, 10]))}
    return case


@st.composite
def tight_families(draw):
    """Published tight instances, scaled: LPT's 2k+1 items (2k-1,2k-1,...,k+1,k+1,k,k,k) with OPT = 3k, LPT = 4k-1;
    multifit's 13/11 instance from its docstring."""
    fam = draw(st.sampled_from(["lpt", "lpt", "multifit-13"]))
    c = draw(st.sampled_from([1, 1, 2, 3, 7, 10, 1000]))
    if fam == "lpt":
        k = draw(st.integers(2, 12))
        vals = [v for i in range(k + 1, 2 * k) for v in (i, i)] + [k, k, k]
        alg = draw(st.sampled_from(["greedy", "greedy", "kk", "multifit", "roundrobin"]))
        known = {"max": 3 * k * c, "min": 3 * k * c}
    else:
        k = 13
        vals = 8 * [40, 13, 13] + 3 * [25, 25, 16] + 2 * [25, 24, 17]
        alg = draw(st.sampled_from(["multifit", "multifit", "greedy", "kk"]))
        known = {"max": 66 * c, "min": 66 * c}       # 13 bins of sum 66: (40,13,13) x 8, (25,25,16) x 3, (25,24,17) x 2
    vals = [v * c for v in vals]
    vals = list(draw(st.permutations(vals)))
    case = {"alg": alg, "values": vals, "numbins": k, "pres": draw(st.sampled_from(PRES)), "nseed": draw(st.integers(0, 5)),
            "profile": "tight-" + fam, "known_opt": known}
    if alg == "multifit":
        case["opts"] = {"iterations": draw(st.sampled_from([0, 1, 2, 3, 5, 8, 10, 12]))}
    return case


@st.composite
def tight_disturbed(draw):
    """LPT's tight family for 2-4 bins (5, 7, 9 items), scaled by up to 10^12 and then disturbed by a few units per item: instances that
    sit on the guarantee (a disturbance moves them just inside or leaves them on it), at magnitudes where sums differ by relative
    10^-9 ... 10^-13.  Optimum from the exhaustive oracle."""
    k = draw(st.integers(2, 4))
    c = draw(st.sampled_from([1, 10, 10 ** 3, 10 ** 6, 10 ** 9, 10 ** 12, 2 ** 40]))
    vals = [v for i in range(k + 1, 2 * k) for v in (i, i)] + [k, k, k]
    ds = S.splitmix(draw(st.integers(0, 2 ** 40)), len(vals), -3, 3)
    if draw(st.integers(0, 3)) == 0:
        ds = [0] * len(vals)
    vals = [max(0, v * c + d) for v, d in zip(vals, ds)]
    vals = list(draw(st.permutations(vals)))
    alg = draw(st.sampled_from(["greedy", "greedy", "greedy", "kk", "multifit"]))
    case = {"alg": alg, "values": vals, "numbins": k, "pres": draw(st.sampled_from(PRES)), "nseed": draw(st.integers(0, 5)),
            "profile": "tight-lpt-disturbed"}
    if alg == "multifit":
        case["opts"] = {"iterations": draw(st.sampled_from([1, 2, 3, 5, 8, 10]))}
        case["values"] = [min(v, 2 ** 33) for v in vals]          # multifit bisects on floats: keep headroom
    return case


@st.composite
def repeated_values_cases(draw):
    """4-10 items drawn from a few small values (whole rounds of equal items, ties between bins at every step): cheap, so many cases."""
    alg = draw(st.sampled_from(["greedy", "greedy", "greedy", "kk", "kk", "kk", "multifit", "roundrobin"]))
    k = draw(st.sampled_from([2, 2, 3, 3, 4]))
    n = draw(st.integers(4, 10 if k <= 3 else 9))
    seed = draw(st.integers(0, 2 ** 48))
    pool = S.splitmix(seed, 2 + seed % 4, 0, 14)
    values = [pool[i % len(pool)] for i in S.splitmix(seed + 1, n, 0, 59)]
    case = {"alg": alg, "values": values, "numbins": k, "pres": draw(st.sampled_from(["list", "list", "dict-str", "array"])),
            "nseed": draw(st.integers(0, 5)), "profile": "repeated-small-values"}
    if alg == "multifit":
        case["opts"] = {"iterations": draw(st.sampled_from([1, 2, 3, 5, 10]))}
    return case


def valid(case):
    v, k = case.get("values"), case.get("numbins")
    if case.get("alg") not in ALGS or not isinstance(k, int) or k < 1:
        return False
    if not isinstance(v, list) or not v or any((not isinstance(x, int)) or x < 0 for x in v) or sum(v) >= 2 ** 50:
        return False
    if "known_opt" in case:
        return True          # certified by construction; the shrinker never changes the values of such a case
    return len(v) <= 10 and k <= 6


def shrink(case):
    if "known_opt" in case:
        # values cannot be changed without losing the certificate; try the exhaustive oracle instead when small enough
        if len(case["values"]) <= 10 and case["numbins"] <= 6:
            c = dict(case)
            del c["known_opt"]
            yield c
        if case.get("pres") != "list":
            yield dict(case, pres="list")
        return
    yield from runner.generic_shrink(case)


def legs(tier):
    return [
        Leg("corpus", evaluate, "committed instances (docstring examples, tight families)", corpus=common.load_corpus(PROP), valid=valid, shards=2),
        Leg("small", evaluate,
            "hypothesis (targeted at ratio/bound): greedy | kk | multifit (iterations 0..12) | roundrobin on <=10 items, 1-6 bins, "
            "optimum from the exhaustive sum-vector oracle; exact rational comparison with (4/3-1/3k)OPT, (3k-1)/(4k-2)OPTmin, "
            "(1.22+2^-iterations)OPT, max-min <= largest item, round-robin order and cardinalities; non-trivial = the heuristic "
            "is not optimal on the case (round-robin: more items than bins and >= 2 distinct values)",
            strategy=small_cases(), n_quick=4000, n_thorough=80000, valid=valid, shrink=shrink, floor=0.1, target=True),
        Leg("repeated-small-values", evaluate,
            "hypothesis: 4-10 items drawn from 2-5 small values (0..10), 2-4 bins, optimum from the exhaustive oracle; same bounds and rule",
            strategy=repeated_values_cases(), n_quick=20000, n_thorough=200000, valid=valid, shrink=shrink, floor=0.05),
        Leg("planted-large", evaluate,
            "hypothesis: 2-10 bins of equal sum S cut into 1-30 random parts (up to ~300 items, shuffled / ascending / as built): "
            "optimum = S by construction; same bounds and rule",
            strategy=planted_large(), n_quick=1000, n_thorough=20000, valid=valid, shrink=shrink, floor=0.1),
        Leg("tight-families-disturbed", evaluate,
            "hypothesis: LPT's tight family for 2-4 bins scaled by 1 ... 10^12 and disturbed by -3..3 per item (instances on or just inside "
            "the guarantee, sums that differ by relative 10^-9 ... 10^-13); optimum from the exhaustive oracle; same bounds and rule",
            strategy=tight_disturbed(), n_quick=1500, n_thorough=30000, valid=valid, shrink=shrink, floor=0.1),
        Leg("tight-families", evaluate,
            "hypothesis: LPT's tight family for k = 2..12 and multifit's 13-bin docstring instance, scaled by 1..1000 and permuted; "
            "optimum known by construction; same bounds and rule",
            strategy=tight_families(), n_quick=300, n_thorough=3000, valid=valid, shrink=shrink, shards=4),
    ]


def main():
    oracles.validate_oracles(("partition",))
    return runner.run_check(PROP, legs(env.tier()), level="exploration", assumptions=[
        "the guarantees are the ones stated in the property (LPT/KK 4/3-1/(3k); LPT max-min (3k-1)/(4k-2); multifit 1.22+2^-iterations)",
        "optimum from the exhaustive oracle (<= 10 items) or by construction (planted perfect partitions, published tight families)",
        "bins that multifit leaves unopened count as empty bins", "totals < 2^50"])
