"""
C10 - bin-covering heuristics meet their approximation guarantees.
"""
from fractions import Fraction

from hypothesis import strategies as st

from .. import cases, common, env, oracles, preds, runner, strategies as S, sut
from ..runner import Failure, Leg, Result

PROP = "C10"
ALGS = cases.COVERERS
ORACLE_MAX_ITEMS = 14


def guarantee(alg, opt):
    if alg == "decreasing":
        return Fraction(opt - 1, 2), "(OPT-1)/2"
    if alg == "twothirds":
        return Fraction(2, 3) * (opt - 1), "2/3*(OPT-1)"
    return Fraction(3, 4) * opt - 4, "3/4*OPT-4"


def evaluate(case):
    alg, C, values = case["alg"], case["binsize"], case["values"]
    labels = [f"alg={alg}", f"profile={case.get('profile', '-')}", f"pres={case.get('pres', 'list')}"]
    p, o = sut.run_case(case, "Partition")
    if not o.ok:
        return Result([Failure(common.exception_bucket(PROP, alg, o), o.describe())], labels, False, None, o.describe())
    bins = o.value
    probs = [(r, d) for r, d in preds.cover_problems(p, bins, C) if r != "waste-at-least-one-bin"]
    if probs:
        return Result(common.failures_from(PROP, alg, [("not-a-cover:" + r, d) for r, d in probs]), labels, False, None, o.describe())
    count = len(bins)
    total = sum(values)
    upper = total // C                         # no cover can fill more bins than this
    if len(values) <= ORACLE_MAX_ITEMS:
        lower = upper = oracles.max_cover(values, C)
        labels.append("opt=exact")
    elif "opt_lower" in case:
        lower = case["opt_lower"]              # a cover with this many bins exists by construction
        labels.append("opt=by-construction" if lower == upper else "opt=lower-bound-by-construction")
    else:
        lower = None
    if lower is not None and lower > upper:
        raise env.HarnessError(f"inconsistent optimum certificate on {case}: lower {lower} > upper {upper}")
    fails = []
    detail = {"bins_covered": count, "opt_at_least": lower, "opt_at_most": upper, "binsize": C, "total": total}
    # what the library *reports* as the number of bins
    p2, o2 = sut.run_case(case, "BinCount")
    if not o2.ok:
        fails.append(Failure(f"{PROP}/{alg}/BinCount:exception:{o2.exc_type}@{o2.where}", o2.describe()))
    else:
        if o2.value > upper:
            fails.append(Failure(f"{PROP}/{alg}/reports-more-bins-than-OPT", dict(detail, reported=o2.value)))
        if o2.value != count:
            labels.append("BinCount-differs-from-returned-bins")     # that is C06's business; here both numbers are held to the bounds
            if lower is not None and o2.value < guarantee(alg, lower)[0]:
                fails.append(Failure(f"{PROP}/{alg}/reports-fewer-bins-than-{guarantee(alg, lower)[1]}", dict(detail, reported=o2.value)))
    if count > upper:
        fails.append(Failure(f"{PROP}/{alg}/more-bins-than-OPT", detail))
    score = None
    if lower is not None:
        need, text = guarantee(alg, lower)
        if count < need:
            fails.append(Failure(f"{PROP}/{alg}/fewer-bins-than-{text}", dict(detail, guarantee=float(need))))
        score = (lower - count) / lower if lower else None
        if count < lower:
            labels.append("heuristic-not-optimal")
    nontrivial = lower is not None and lower >= 2 and count < lower
    return Result(fails, labels, nontrivial, None, dict(detail, bins=sut.jsonable(bins) if len(values) <= 20 else "..."), score=score,
                  subcases=2)


PRES = ["list", "list", "list", "array", "dict-str", "dict-int", "names", "names-array", "dict-mixed"]


def arrange(draw, base, extras, order):
    """Put the perturbation items first / last / at generated positions and order the whole input."""
    where = draw(st.sampled_from(["first", "last", "scattered"]))
    vals = list(base)
    if where == "first":
        vals = list(extras) + vals
    elif where == "last":
        vals = vals + list(extras)
    else:
        for e in extras:
            vals.insert(draw(st.integers(0, len(vals))), e)
    if order == "shuffled":
        keys = S.splitmix(draw(st.integers(0, 2 ** 40)), len(vals), 0, 2 ** 40)
        vals = [vals[i] for i in sorted(range(len(vals)), key=lambda i: (keys[i], i))]
    elif order == "ascending":
        vals = sorted(vals)
    elif order == "descending":
        vals = sorted(vals, reverse=True)
    return vals


@st.composite
def extras_for(draw, C, max_extra=4):
    """Perturbation items, half of them sitting just above / below the class boundaries binsize/3 and binsize/2."""
    n = draw(st.integers(0, max_extra))
    kinds = st.sampled_from(["tiny", "small", "medium", "just-above-third", "just-above-third", "just-below-half", "just-above-half",
                             "big", "huge"])
    eps = max(1, C // 100)
    out = []
    same = draw(st.booleans())           # several copies of one perturbation item, or independent ones
    first = None
    for _ in range(n):
        if same and first is not None:
            out.append(first)
            continue
        kind = draw(kinds)
        lo, hi = {"tiny": (1, max(1, C // 50)), "small": (1, max(1, C // 3 - 1)), "medium": ((C + 2) // 3, max((C + 2) // 3, (C - 1) // 2)),
                  "just-above-third": ((C + 2) // 3, (C + 2) // 3 + eps), "just-below-half": (max(1, (C - 1) // 2 - eps), max(1, (C - 1) // 2)),
                  "just-above-half": ((C + 1) // 2, (C + 1) // 2 + eps), "big": ((C + 1) // 2, C), "huge": (C, 2 * C)}[kind]
        first = draw(st.integers(lo, max(lo, hi)))
        out.append(first)
    return out


@st.composite
def small_cases(draw):
    return draw(cases.covering_cases(presentations=PRES, max_len=ORACLE_MAX_ITEMS))


@st.composite
def planted_cases(draw):
    """m exactly-full bins cut into 1-6 parts (a cover with m bins exists), plus up to 4 extra items at generated positions:
    OPT >= m, OPT <= floor(total / binsize)."""
    alg = draw(st.sampled_from(ALGS))
    C = draw(st.sampled_from([10, 12, 30, 60, 100, 101, 1000, 1200]))
    m = draw(st.integers(2, 120))
    style = draw(st.sampled_from(["mixed", "pairs+fill", "triples", "many-small", "thirds+halves", "just-below-half+unit"]))
    if style == "just-below-half+unit":
        # every bin is two items of the largest value below half the bin plus the unit(s) that complete it - on an ODD bin size that is
        # exactly (binsize-1)/2, the value a floor instead of a ceiling in a class threshold misplaces; many bins, so that the additive
        # slack of the guarantees is used up
        C = draw(st.sampled_from([13, 31, 101, 201, 1001, 60, 1000]))
        m = draw(st.integers(40, 120))
    if style == "thirds+halves":
        C = draw(st.sampled_from([12, 30, 60, 120, 1200]))         # divisible by 2 and 3: items of exactly a third / a half of the bin
    parts = []
    for _ in range(m):
        if style == "just-below-half+unit":
            h = (C - 1) // 2
            parts += [h, h] + [1] * (C - 2 * h)
        elif style == "pairs+fill":          # two items just below half the bin and small fillers
            a = draw(st.integers(max(1, C // 2 - max(1, C // 20)), max(1, (C - 1) // 2)))
            rest = C - 2 * a
            parts += [a, a] + ([1] * rest if rest <= 6 else [rest // 2, rest - rest // 2])
        elif style == "thirds+halves":     # medium-rich, small-poor: mostly three exact thirds, some two exact halves, few bins of small items
            r = draw(st.integers(0, 9))
            if r < 7:
                parts += [C // 3] * 3
            elif r < 9:
                parts += [C // 2] * 2
            else:
                q = max(1, C // 12)
                parts += [q] * (C // q) + ([C - q * (C // q)] if C % q else [])
        elif style == "triples":           # three items around a third of the bin
            a = draw(st.integers(max(1, C // 3 - max(1, C // 20)), max(1, C // 3)))
            b = draw(st.integers(max(1, C // 3 - max(1, C // 20)), max(1, C // 3)))
            c = C - a - b
            parts += [a, b] + ([c] if c > 0 else [])
        else:
            npieces = draw(st.integers(1, min(6, C))) if style == "mixed" else draw(st.integers(min(6, C), min(12, C)))
            cuts = sorted(set(S.splitmix(draw(st.integers(0, 2 ** 40)), npieces - 1, 1, C - 1))) if npieces > 1 else []
            prev = 0
            for c in cuts + [C]:
                parts.append(c - prev)
                prev = c
    parts = [x for x in parts if x > 0]
    extras = draw(extras_for(C))
    vals = arrange(draw, parts, extras, draw(st.sampled_from(["shuffled", "as-built", "ascending", "descending"])))
    return {"alg": alg, "values": vals, "binsize": C, "pres": draw(st.sampled_from(PRES)), "nseed": draw(st.integers(0, 5)),
            "profile": "planted-" + style, "opt_lower": m}


@st.composite
def published_families(draw):
    """The worst-case families printed in Csirik-Frenk-Labbe-Zhang (1999) and in the docstrings, parametrised by k and
    scaled, with up to 4 extra items at generated positions and a generated arrival order."""
    fam = draw(st.sampled_from(["half", "half", "threequarters", "threequarters", "mixed-501"]))
    k = draw(st.integers(1, 40))
    c = draw(st.sampled_from([1, 1, 1, 2, 3, 10]))
    if fam == "half":            # bins [499,499,1,1] x 3k
        C, base, lower = 1000, [1000 - 6 * k] + 6 * k * [499] + 6 * k * [1], 3 * k
    elif fam == "threequarters":  # bins [399,399,399,1,1,1] x 4k
        C, base, lower = 1200, [594, 594] + 12 * k * [399] + 12 * k * [1], 4 * k
    else:                        # bins [499,499,1,1] x 2k, [501,499?]...: certified only by the planted part
        C, base, lower = 1000, [994] + 2 * k * [501] + 4 * k * [499] + 12 * k * [1], 2 * k
    base = [v * c for v in base]
    C *= c
    extras = draw(extras_for(C))
    vals = arrange(draw, base, extras, draw(st.sampled_from(["as-published", "as-published", "shuffled", "ascending"])))
    return {"alg": draw(st.sampled_from(ALGS)), "values": vals, "binsize": C, "pres": draw(st.sampled_from(PRES)),
            "nseed": draw(st.integers(0, 5)), "profile": "published-" + fam, "opt_lower": lower}


def valid(case):
    return case.get("alg") in ALGS and cases.valid_covering_case(case)


def shrink(case):
    if "opt_lower" in case and len(case["values"]) > ORACLE_MAX_ITEMS:
        # keep the certificate honest: only whole-input simplifications that cannot lower the optimum below it are not
        # available, so the values stay; simplify the presentation only
        if case.get("pres") != "list":
            yield dict(case, pres="list")
        return
    yield from runner.generic_shrink(case)


def legs(tier):
    return [
        Leg("corpus", evaluate, "committed instances (docstring examples, published worst cases)", corpus=common.load_corpus(PROP), valid=valid, shards=2),
        Leg("small", evaluate,
            "hypothesis (targeted at (OPT-bins)/OPT): decreasing | twothirds | threequarters on <= 14 positive ints incl. items above the "
            "bin size and the class thresholds; OPT from the exact bitmask DP; oracle: valid cover, reported BinCount <= OPT, bins >= (OPT-1)/2 | 2/3(OPT-1) | 3/4 OPT - 4; non-trivial = OPT >= 2 and fewer bins than OPT",
            strategy=small_cases(), n_quick=4000, n_thorough=80000, valid=valid, shrink=shrink, floor=0.03, target=True),
        Leg("planted", evaluate,
            "hypothesis: 2-120 exactly-full bins (mixed cuts; two near-halves + fillers; three near-thirds; many small; exact thirds and halves with few small items) plus up to 4 "
            "extra items placed first / last / scattered, in shuffled / as-built / ascending / descending order (up to ~1400 items): a cover "
            "with m bins exists, floor(total/binsize) bounds OPT from above; same oracle and rule",
            strategy=planted_cases(), n_quick=1200, n_thorough=24000, valid=valid, shrink=shrink, floor=0.03),
        Leg("published", evaluate,
            "hypothesis: the published worst-case families (1000: [1000-6k]+6k*[499]+6k*[1]; 1200: [594,594]+12k*[399]+12k*[1]; "
            "1000: [994]+2k*[501]+4k*[499]+12k*[1]) for k = 1..40, scaled, with up to 4 extra items and a generated arrival order; "
            "same oracle and rule", strategy=published_families(), n_quick=1500, n_thorough=30000, valid=valid, shrink=shrink, floor=0.03),
    ]


def main():
    oracles.validate_oracles(("cover",))
    return runner.run_check(PROP, legs(env.tier()), level="exploration", assumptions=[
        "OPT exact (bitmask DP) up to 14 items; beyond that a cover with opt_lower bins exists by construction, so a count below the "
        "guarantee computed from opt_lower is below the guarantee computed from OPT (the guarantees are increasing in OPT), and "
        "floor(total/binsize) is an upper bound on OPT",
        "positive integer values"])
