"""
C04 - bin-completion uses the minimum possible number of bins.
"""
import itertools

from hypothesis import strategies as st

from .. import fuzz_target, cases, common, env, oracles, preds, refmodels, runner, strategies as S, sut
from ..runner import Failure, Leg, Result

PROP = "C04"
OUTPUTS = ["Partition", "Sums", "BinCount"]


def evaluate(case):
    C, values = case["binsize"], case["values"]
    labels = [f"pres={case.get('pres', 'list')}", f"profile={case.get('profile', '-')}"] + S.value_labels(values)
    optimum = oracles.min_bins(values, C)          # always the exact oracle (<= 14 items), never a construction's claim
    ref_ffd = len(refmodels.first_fit_decreasing(values, C))
    ref_bfd = len(refmodels.best_fit_decreasing(values, C))
    fails = []
    counts = {}
    for ot in case.get("outputs", OUTPUTS):
        p, o = sut.run_case(dict(case, alg="bc"), ot)
        if not o.ok:
            fails.append(Failure(f"{PROP}/bc/{ot}:exception:{o.exc_type}@{o.where}", o.describe()))
            continue
        if ot == "Partition":
            probs = preds.packing_problems(p, o.value, C)
            if probs:       # an infeasible packing with few bins must not pass as "optimal"
                fails += [Failure(f"{PROP}/bc/infeasible:{r}", {"what": d}) for r, d in probs]
            counts[ot] = len(o.value)
        elif ot == "Sums":
            counts[ot] = len(o.value)
        else:
            counts[ot] = o.value
    for ot, c in counts.items():
        if c > optimum:
            fails.append(Failure(f"{PROP}/bc/{ot}:more-bins-than-optimum",
                                 {"bins": c, "optimum": optimum, "ffd": ref_ffd, "bfd": ref_bfd}))
        elif c < optimum and not any(f.bucket.startswith(f"{PROP}/bc/infeasible") for f in fails):
            fails.append(Failure(f"{PROP}/bc/{ot}:fewer-bins-than-possible", {"bins": c, "optimum": optimum}))
        if c > min(ref_ffd, ref_bfd):
            fails.append(Failure(f"{PROP}/bc/{ot}:more-bins-than-ffd-or-bfd", {"bins": c, "ffd": ref_ffd, "bfd": ref_bfd}))
    if len(set(counts.values())) > 1:
        fails.append(Failure(f"{PROP}/bc/count-depends-on-output-type", counts))
    nontrivial = ref_bfd > optimum
    if nontrivial:
        labels.append("BFD-not-optimal")
    if ref_ffd > optimum:
        labels.append("FFD-not-optimal")
    return Result(fails, labels, nontrivial, None, {"counts": counts, "optimum": optimum, "bfd": ref_bfd}, subcases=len(case.get("outputs", OUTPUTS)))


@st.composite
def random_cases(draw):
    C = draw(st.sampled_from([6, 7, 10, 10, 12, 20, 20, 30, 60, 100]))
    fam = draw(st.sampled_from(["planted", "hard", "hard", "hard", "halves+big", "halves+big", "forced-waste", "forced-waste", "planted-slack", "uniform", "many-equal", "mid"]))
    if fam == "hard":
        C = max(C, 12)
        fam, values, _ = draw(S.hard_packing(C, max_bins=4, max_len=12))
    elif fam == "forced-waste":
        # 4-5 items so big that nothing else fits beside them - together they waste at least a whole bin, so the optimum lies ABOVE
        # ceil(total/binsize) - plus two planted bins of three items of about 0.4 / 0.3 / 0.3 of the bin, on which best-fit-decreasing
        # needs a third bin
        C = draw(st.sampled_from([20, 30, 50, 100]))
        rest = []
        for _ in range(2):
            a = draw(st.integers((36 * C) // 100, (44 * C) // 100))
            b = draw(st.integers((28 * C) // 100, (32 * C) // 100))
            rest += [a, b, C - a - b]
        smallest = min(rest)
        nbig = draw(st.integers(4, 5))
        bigs = [min(C, C - smallest + 1 + draw(st.integers(0, max(0, C // 20)))) for _ in range(nbig)]
        values = list(draw(st.permutations(rest + bigs)))
    elif fam == "halves+big":
        # a perfect packing made of one bin of two exact halves and 1-3 bins holding one item above half plus exact fillers: the number of
        # items of at least half a bin is then optimum + 1 (a bound that counts exact halves as "big" is off by one exactly here)
        C = 2 * max(6, C // 2)
        values = [C // 2, C // 2]
        for _ in range(draw(st.integers(1, 3))):
            a = draw(st.integers(C // 2 + 1, (3 * C) // 4))
            rest = C - a
            pieces = draw(st.integers(2, 3))
            cuts = sorted(draw(st.lists(st.integers(1, rest - 1), min_size=pieces - 1, max_size=pieces - 1, unique=True))) if rest > pieces else []
            prev = 0
            for c in cuts + [rest]:
                values.append(c - prev)
                prev = c
            values.append(a)
        values = list(draw(st.permutations(values)))[:12]
    elif fam == "planted":
        values = draw(S.planted_packing(C, max_bins=4, max_len=12, slack=False))
    elif fam == "planted-slack":
        values = draw(S.planted_packing(C, max_bins=4, max_len=12, slack=True))
    elif fam == "uniform":
        values = draw(S.int_lists(draw(S.sizes(3, 12)), 1, C))
    elif fam == "many-equal":
        pool = draw(st.lists(st.integers(max(1, C // 6), max(1, C // 2 + 1)), min_size=2, max_size=3))
        values = draw(st.lists(st.sampled_from(pool), min_size=5, max_size=12))
    else:
        values = S.splitmix(draw(st.integers(0, 2 ** 40)), draw(st.integers(6, 12)), max(1, C // 6), (2 * C) // 3)
    return {"alg": "bc", "values": [min(max(v, 1), C) for v in values], "binsize": C,
            "pres": draw(st.sampled_from(["list", "list", "list", "array", "dict-str", "dict-int", "names", "names-array"])),
            "nseed": draw(st.integers(0, 5)), "profile": fam}


@st.composite
def medium_volume_cases(draw):
    """3-4 planted bins, each cut into 3-4 MEDIUM parts (an eighth to a half of the bin) with a slack of 0-3: 9-14 items among which many
    different completions fill a bin to the same level.  Cheap (10 ms), so they come in tens of thousands: what a search loses by
    confusing two partial packings with equal bin levels shows on well under 0.1 % of them."""
    seed = draw(st.integers(0, 2 ** 48))
    C = [30, 50, 60, 100][seed % 4]
    m = [3, 3, 4][(seed >> 2) % 3]
    lo = max(1, C // 8)
    values = []
    for b in range(m):
        total = C - [0, 0, 1, 2, 3][(seed >> (4 + 3 * b)) % 5]
        parts = 3 if (seed >> (16 + b)) % 10 < 7 else 4
        ps = None
        for attempt in range(40):
            cuts = sorted(set(S.splitmix(seed + 1000 * b + attempt, parts - 1, 1, total - 1)))
            cand = [y - x for x, y in zip([0] + cuts, cuts + [total])]
            if len(cand) == parts and min(cand) >= lo and max(cand) <= C // 2:
                ps = cand
                break
        values += ps or [total // 3, total // 3, total - 2 * (total // 3)]
    keys = S.splitmix(seed + 7, len(values), 0, 2 ** 30)
    values = [values[i] for i in sorted(range(len(values)), key=lambda i: (keys[i], i))][:14]
    return {"alg": "bc", "values": values, "binsize": C, "pres": "list", "nseed": 0, "profile": "medium-items-with-slack",
            "outputs": [["BinCount"], ["BinCount"], ["Partition"], ["Sums"]][(seed >> 30) % 4]}


def exhaustive_cases(tier):
    """All multisets of <= 7 items from 1..C for C in {5,6,7,8,10}."""
    idx = 0
    for C in (5, 6, 7, 8, 10):
        for n in range(1, 8):
            for values in itertools.combinations_with_replacement(range(1, C + 1), n):
                idx += 1
                if tier == "quick" and (idx * 2654435761 + env.seed()) % 40 != 0:
                    continue
                yield {"alg": "bc", "values": list(values), "binsize": C, "pres": "list", "nseed": 0}


def valid(case):
    return cases.valid_packing_case(case) and all(v >= 1 for v in case["values"]) and len(case["values"]) <= 14


# ------------------------------------------------------------------ search guided by the dominance filter (anchor: "the dominance
# filter must only discard completions that can be replaced without loss")

def fits_into(l1, l2):
    """Martello-Toth dominance, by brute force: can the items of l2 be placed into 'bins' whose capacities are the items of l1?"""
    caps = list(l1)

    def place(i):
        if i == len(l2):
            return True
        seen = set()
        for j in range(len(caps)):
            if caps[j] >= l2[i] and caps[j] not in seen:
                seen.add(caps[j])
                caps[j] -= l2[i]
                if place(i + 1):
                    caps[j] += l2[i]
                    return True
                caps[j] += l2[i]
        return False
    return place(0)


def embed(l1, l2, variant):
    """A perfect packing (zero slack) in which the bin of the largest item x can only be completed by l2, and every item of l1 is
    needed in a bin of its own: x = C - sum(l2); each a in l1 sits with two fillers p + q = C - a that are too big to join x.
    If a search discards l2 as 'dominated by l1' although l2 does not fit into l1, it can no longer find the m-bin packing."""
    t = 1 + variant % 3
    l1, l2 = [v * t for v in l1], [v * t for v in l2]
    s2 = sum(l2)
    C = 5 * s2 + 2 * max(l1 + l2) + (variant // 3) % 4
    x = C - s2
    values = [x] + l1 + l2
    for i, a in enumerate(l1):
        rest = C - a
        p_ = rest // 2 + ((variant // 12 + i) % 3)
        values += [p_, rest - p_]
    keys = S.splitmix(variant * 7919 + 13, len(values), 0, 2 ** 30)
    values = [values[i] for i in sorted(range(len(values)), key=lambda i: (keys[i], i))]
    return {"alg": "bc", "values": values, "binsize": C, "pres": "list", "nseed": 0, "profile": "embedded-dominance-pair"}


def guided_leg(n, seed, rec, tier):
    """1. probe the helper on many pairs of candidate completions and keep those where it claims dominance although l2 does not fit
    into l1 (a claim that is at least not justified by the Martello-Toth criterion);  2. embed each such pair into perfect-packing
    instances and let the ordinary end-to-end oracle decide.  The helper's answer alone is never a verdict."""
    pairs = []
    draws = S.splitmix(seed, 6 * 4000, 0, 2 ** 30)
    for i in range(0, len(draws), 6):
        d = draws[i:i + 6]
        vmax = 6 + d[0] % 10
        l1 = sorted([1 + d[1 + j] % vmax for j in range(1 + d[5] % 2)], reverse=True)
        l2 = sorted([1 + (d[1 + j] >> 8) % vmax for j in range(2 + (d[5] >> 4) % 3)], reverse=True)
        if sum(l1) >= sum(l2) and l1 != l2:
            pairs.append((l1, l2))
    claims = sut.dominance_claims(pairs)
    if claims is None:
        rec.labels["guided:skipped(helper not found)"] += 1
        return
    suspicious = [pr for pr, c in zip(pairs, claims) if c and not fits_into(*pr)]
    rec.labels["guided:pairs-probed"] += len(pairs)
    rec.labels["guided:claims-not-justified-by-fitting"] += len(suspicious)
    seen = set()
    budget = max(10, n)
    for l1, l2 in suspicious:
        key = (tuple(l1), tuple(l2))
        if key in seen:
            continue
        seen.add(key)
        for variant in range(6):
            if budget <= 0:
                return
            case = embed(l1, l2, variant + 6 * (seed % 5))
            if len(case["values"]) <= 12:
                budget -= 1
                rec.run(case)
    # controls: embeddings of justified pairs must be solved too (and give the leg something to count on the unchanged tree)
    for (l1, l2), c in list(zip(pairs, claims))[:max(10, min(budget, 60))]:
        case = embed(l1, l2, seed % 36)
        if len(case["values"]) <= 12:
            rec.run(case)


def legs(tier):
    return [
        Leg("corpus", evaluate, "the cited instances and every input that exposed a repaired defect",
            corpus=common.load_corpus(PROP), valid=valid, shards=2),
        Leg("random", evaluate,
            "hypothesis: bin_completion on planted-perfect (with/without slack), uniform, many-equal and mid-size inputs, "
            "<=12 items of 1..binsize, outputs Partition/Sums/BinCount, 5 presentations; oracle = exact bitmask DP; "
            "non-trivial = best-fit-decreasing is NOT optimal on the instance (the search had to find something better)",
            strategy=random_cases(), n_quick=2500, n_thorough=60000, valid=valid, floor=0.08),
        Leg("medium-items-volume", evaluate,
            "hypothesis: 3-4 planted bins cut into 3-4 medium parts (an eighth to a half of the bin) with slack 0-3, 9-14 items, one output "
            "type per case: cheap cases in tens of thousands; same oracle and rule",
            strategy=medium_volume_cases(), n_quick=16000, n_thorough=320000, valid=valid, floor=0.02),
        Leg("exhaustive-small", evaluate,
            "all multisets of <=7 items from 1..C for C in {5,6,7,8,10} (quick: 1/40 slice); same rule",
            enum=exhaustive_cases, valid=valid, exhaustive=True, scope="multisets(<=7 from 1..C), C in {5,6,7,8,10}"),
        Leg("guided-by-dominance-filter", evaluate,
            "white-box guided: bin completion's dominance helper is probed on ~4,000 pairs of candidate completions per shard; every pair for "
            "which it claims dominance although the second does not fit into the first (brute force) is embedded into zero-slack perfect "
            "packings in which the largest item's bin can only be completed by the second list; the ordinary end-to-end oracle decides "
            "(the helper's answer alone is never a verdict); plus control embeddings of justified pairs; same non-triviality rule",
            stateful=guided_leg, n_quick=240, n_thorough=2400, valid=valid, shards=4),
        fuzz_target.fuzz_leg(PROP, 80000, evaluate, valid),
    ]


def main():
    oracles.validate_oracles(("packing",))
    return runner.run_check(PROP, legs(env.tier()), level="exploration", assumptions=[
        "optimum from an exact bitmask DP (validated against brute force at start); <= 12-13 items",
        "integer items 1..binsize",
    ])
