"""
C04 - bin-completion uses the minimum possible number of bins.
"""
import itertools

from hypothesis import strategies as st

from .. import fuzz_target, cases, common, env, oracles, preds, refmodels, runner, strategies as S, sut
from ..runner import Failure, Leg, Result

PROP = "C04"
OUTPUTS = ["Partition", "Sums", "BinCount"]


def evaluate(case):
    C, values = case["binsize"], case["values"]
    labels = [f"pres={case.get('pres', 'list')}", f"profile={case.get('profile', '-')}"] + S.value_labels(values)
    optimum = case.get("planted_optimum") or oracles.min_bins(values, C)
    ref_ffd = len(refmodels.first_fit_decreasing(values, C))
    ref_bfd = len(refmodels.best_fit_decreasing(values, C))
    fails = []
    counts = {}
    for ot in OUTPUTS:
        p, o = sut.run_case(dict(case, alg="bc"), ot)
        if not o.ok:
            fails.append(Failure(f"{PROP}/bc/{ot}:exception:{o.exc_type}@{o.where}", o.describe()))
            continue
        if ot == "Partition":
            probs = preds.packing_problems(p, o.value, C)
            if probs:       # an infeasible packing with few bins must not pass as "optimal"
                fails += [Failure(f"{PROP}/bc/infeasible:{r}", {"what": d}) for r, d in probs]
            counts[ot] = len(o.value)
        elif ot == "Sums":
            counts[ot] = len(o.value)
        else:
            counts[ot] = o.value
    for ot, c in counts.items():
        if c > optimum:
            fails.append(Failure(f"{PROP}/bc/{ot}:more-bins-than-optimum",
                                 {"bins": c, "optimum": optimum, "ffd": ref_ffd, "bfd": ref_bfd}))
        elif c < optimum and not any(f.bucket.startswith(f"{PROP}/bc/infeasible") for f in fails):
            fails.append(Failure(f"{PROP}/bc/{ot}:fewer-bins-than-possible", {"bins": c, "optimum": optimum}))
        if c > min(ref_ffd, ref_bfd):
            fails.append(Failure(f"{PROP}/bc/{ot}:more-bins-than-ffd-or-bfd", {"bins": c, "ffd": ref_ffd, "bfd": ref_bfd}))
    if len(set(counts.values())) > 1:
        fails.append(Failure(f"{PROP}/bc/count-depends-on-output-type", counts))
    nontrivial = ref_bfd > optimum
    if nontrivial:
        labels.append("BFD-not-optimal")
    if ref_ffd > optimum:
        labels.append("FFD-not-optimal")
    return Result(fails, labels, nontrivial, None, {"counts": counts, "optimum": optimum, "bfd": ref_bfd}, subcases=3)


@st.composite
def random_cases(draw):
    C = draw(st.sampled_from([6, 7, 10, 10, 12, 20, 20, 30, 60, 100]))
    fam = draw(st.sampled_from(["planted", "hard", "hard", "hard", "planted-slack", "uniform", "many-equal", "mid"]))
    if fam == "hard":
        C = max(C, 12)
        fam, values, _ = draw(S.hard_packing(C, max_bins=4, max_len=12))
    elif fam == "planted":
        values = draw(S.planted_packing(C, max_bins=4, max_len=12, slack=False))
    elif fam == "planted-slack":
        values = draw(S.planted_packing(C, max_bins=4, max_len=12, slack=True))
    elif fam == "uniform":
        values = draw(S.int_lists(draw(S.sizes(3, 12)), 1, C))
    elif fam == "many-equal":
        pool = draw(st.lists(st.integers(max(1, C // 6), max(1, C // 2 + 1)), min_size=2, max_size=3))
        values = draw(st.lists(st.sampled_from(pool), min_size=5, max_size=12))
    else:
        values = S.splitmix(draw(st.integers(0, 2 ** 40)), draw(st.integers(6, 12)), max(1, C // 6), (2 * C) // 3)
    return {"alg": "bc", "values": [min(max(v, 1), C) for v in values], "binsize": C,
            "pres": draw(st.sampled_from(["list", "list", "list", "array", "dict-str", "dict-int", "names", "names-array"])),
            "nseed": draw(st.integers(0, 5)), "profile": fam}


def exhaustive_cases(tier):
    """All multisets of <= 7 items from 1..C for C in {5,6,7,8,10}."""
    idx = 0
    for C in (5, 6, 7, 8, 10):
        for n in range(1, 8):
            for values in itertools.combinations_with_replacement(range(1, C + 1), n):
                idx += 1
                if tier == "quick" and (idx * 2654435761 + env.seed()) % 40 != 0:
                    continue
                yield {"alg": "bc", "values": list(values), "binsize": C, "pres": "list", "nseed": 0}


def valid(case):
    return cases.valid_packing_case(case) and all(v >= 1 for v in case["values"]) and len(case["values"]) <= 14


def legs(tier):
    return [
        Leg("corpus", evaluate, "the cited instances and every input that exposed a repaired defect",
            corpus=common.load_corpus(PROP), valid=valid, shards=2),
        Leg("random", evaluate,
            "hypothesis: bin_completion on planted-perfect (with/without slack), uniform, many-equal and mid-size inputs, "
            "<=12 items of 1..binsize, outputs Partition/Sums/BinCount, 5 presentations; oracle = exact bitmask DP; "
            "non-trivial = best-fit-decreasing is NOT optimal on the instance (the search had to find something better)",
            strategy=random_cases(), n_quick=2500, n_thorough=60000, valid=valid, floor=0.08),
        Leg("exhaustive-small", evaluate,
            "all multisets of <=7 items from 1..C for C in {5,6,7,8,10} (quick: 1/40 slice); same rule",
            enum=exhaustive_cases, valid=valid, exhaustive=True, scope="multisets(<=7 from 1..C), C in {5,6,7,8,10}"),
        fuzz_target.fuzz_leg(PROP, 80000, evaluate, valid),
    ]


def main():
    oracles.validate_oracles(("packing",))
    return runner.run_check(PROP, legs(env.tier()), level="exploration", assumptions=[
        "optimum from an exact bitmask DP (validated against brute force at start); <= 12-13 items",
        "integer items 1..binsize",
    ])
