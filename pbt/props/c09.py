"""
C09 - fit heuristics keep the any-fit invariant and their bin-count bounds.
"""
import math
from fractions import Fraction

from hypothesis import strategies as st

from .. import cases, common, env, oracles, preds, runner, strategies as S, sut
from ..runner import Failure, Leg, Result

PROP = "C09"
ALGS = ["ff", "bf", "ffd", "bfd"]
ORACLE_MAX_ITEMS = 14


def opt_bins(case):
    """Minimum number of bins: by construction if certified, else the bitmask-DP oracle (positive items <= 14)."""
    values, C = case["values"], case["binsize"]
    if "known_opt" in case:
        return case["known_opt"]
    positive = [v for v in values if v > 0]
    if len(positive) > ORACLE_MAX_ITEMS:
        return None
    return max(1, oracles.min_bins(positive, C)) if values else 0


def evaluate(case):
    alg, C, values = case["alg"], case["binsize"], case["values"]
    den = case.get("den", 1)
    binsize = sut.num(sut.binsize_of(case))
    labels = [f"alg={alg}", f"profile={case.get('profile', '-')}", f"den={den}", f"pres={case.get('pres', 'list')}"] + S.value_labels(values)
    p, o = sut.run_case(case, "Partition")
    if not o.ok:
        return Result([Failure(common.exception_bucket(PROP, alg, o), o.describe())], labels, False, None, o.describe())
    bins = o.value
    probs = preds.packing_problems(p, bins, binsize)
    if probs:
        return Result(common.failures_from(PROP, alg, [("not-a-packing:" + r, d) for r, d in probs]), labels, False, None, o.describe())
    sums = preds.bin_sums(p, bins)
    firsts = [p.value(b[0]) for b in bins]
    fails = []
    # any-fit: for i < j, the item that opened bin j did not fit into bin i
    worst = None
    for j in range(1, len(bins)):
        for i in range(j):
            if sums[i] + firsts[j] <= binsize:
                worst = (i, j)
                break
        if worst:
            break
    if worst:
        i, j = worst
        fails.append(Failure(f"{PROP}/{alg}/any-fit-violated",
                             {"earlier_bin": i, "its_sum": sut.jsonable(sums[i]), "later_bin": j, "its_first_item": sut.jsonable(firsts[j]),
                              "binsize": sut.jsonable(binsize), "bins": sut.jsonable(bins)}))
    opt = opt_bins(case)
    count = len(bins)
    score = None
    if opt is not None:
        if count < opt:
            raise env.HarnessError(f"oracle minimum {opt} beaten by a feasible packing with {count} bins: {case}")
        detail = {"bins_used": count, "optimum": opt, "sums": sut.jsonable(sums)}
        if count > math.floor(Fraction(17, 10) * opt):
            fails.append(Failure(f"{PROP}/{alg}/more-than-floor(1.7*OPT)-bins", detail))
        if alg == "ffd" and count > Fraction(11, 9) * opt + Fraction(6, 9):
            fails.append(Failure(f"{PROP}/ffd/more-than-11/9*OPT+6/9-bins", detail))
        if alg == "bfd" and count > Fraction(11, 9) * opt + 4:
            fails.append(Failure(f"{PROP}/bfd/more-than-11/9*OPT+4-bins", detail))
        score = count / opt if opt else None
        if count > opt:
            labels.append("heuristic-not-optimal")
    else:
        labels.append("no-oracle(too-large)")
    nontrivial = count >= 3 and (opt is None or count > opt)
    return Result(fails, labels, nontrivial, None, {"bins": sut.jsonable(bins), "optimum": opt}, score=score)


PRES = ["list", "list", "list", "array", "dict-str", "dict-int", "names", "names-array", "dict-mixed"]


@st.composite
def small_cases(draw):
    case = draw(cases.packing_cases(algs=ALGS, presentations=PRES, max_len=14))
    return case


@st.composite
def larger_cases(draw):
    """Up to 60 items: the any-fit invariant is checked on every pair of bins; count bounds only where OPT is certified."""
    alg = draw(st.sampled_from(ALGS))
    C = draw(S.binsizes())
    profile, values = draw(S.packing_values(C, 15, 60))
    case = {"alg": alg, "values": values, "binsize": C, "pres": draw(st.sampled_from(PRES)), "nseed": draw(st.integers(0, 5)),
            "profile": "large-" + profile}
    if draw(st.integers(0, 4)) == 0:
        case["den"] = 8
    if sum(values) > 0:
        # a perfect packing certificate is not available here; the lower bound ceil(total/C) certifies OPT only when FFD meets it
        pass
    return case


@st.composite
def planted_cases(draw):
    """m exactly-full bins cut into 1-5 parts: OPT = m by construction (total = m * C)."""
    alg = draw(st.sampled_from(ALGS))
    C = draw(st.sampled_from([10, 12, 20, 30, 60, 100, 101, 1000]))
    m = draw(st.integers(2, 25))
    parts = []
    for _ in range(m):
        npieces = draw(st.integers(1, min(5, C)))
        cuts = sorted(set(S.splitmix(draw(st.integers(0, 2 ** 40)), npieces - 1, 1, C - 1))) if npieces > 1 else []
        prev = 0
        for c in cuts + [C]:
            parts.append(c - prev)
            prev = c
    keys = S.splitmix(draw(st.integers(0, 2 ** 40)), len(parts), 0, 2 ** 40)
    order = draw(st.sampled_from(["shuffled", "ascending", "as-built"]))
    if order == "shuffled":
        parts = [parts[i] for i in sorted(range(len(parts)), key=lambda i: (keys[i], i))]
    elif order == "ascending":
        parts = sorted(parts)
    case = {"alg": alg, "values": parts, "binsize": C, "pres": draw(st.sampled_from(PRES)), "nseed": draw(st.integers(0, 5)),
            "profile": "planted-" + order, "known_opt": m}
    if draw(st.integers(0, 5)) == 0:
        case["den"] = 8
    return case


@st.composite
def classical_families(draw):
    """The classical bad arrival order for first fit: m items just above 1/7, then m just above 1/3, then m just above 1/2 of
    the bin (C = 42 s): first fit needs 5m/3 bins, the optimum is m (one of each per bin)."""
    s = draw(st.integers(3, 30))
    C = 42 * s
    m = 6 * draw(st.integers(1, 8))
    e = draw(st.integers(1, max(1, s // 3)))
    small, mid, big = [6 * s + e] * m, [14 * s + e] * m, [21 * s + e] * m
    order = draw(st.sampled_from(["worst", "worst", "shuffled", "reversed"]))
    vals = small + mid + big
    if order == "reversed":
        vals = big + mid + small
    elif order == "shuffled":
        keys = S.splitmix(draw(st.integers(0, 2 ** 40)), len(vals), 0, 2 ** 40)
        vals = [vals[i] for i in sorted(range(len(vals)), key=lambda i: (keys[i], i))]
    return {"alg": draw(st.sampled_from(ALGS)), "values": vals, "binsize": C, "pres": draw(st.sampled_from(["list", "array", "dict-str"])),
            "nseed": draw(st.integers(0, 5)), "profile": "classical-5/3-" + order, "known_opt": m}


def valid(case):
    if case.get("alg") not in ALGS or not cases.valid_packing_case(case):
        return False
    return True


def shrink(case):
    if "known_opt" in case:
        c = dict(case)
        del c["known_opt"]            # fall back to the exhaustive oracle / no oracle; the invariant needs no optimum
        yield c
        if case.get("pres") != "list":
            yield dict(case, pres="list")
        return
    yield from runner.generic_shrink(case)


def legs(tier):
    return [
        Leg("corpus", evaluate, "committed instances (docstring examples, boundary cases)", corpus=common.load_corpus(PROP), valid=valid, shards=2),
        Leg("small", evaluate,
            "hypothesis (targeted at bins/OPT): ff | bf | ffd | bfd on <= 14 items (0..binsize, 6 profiles incl. thresholds and planted, "
            "ints or eighths, in the generated arrival order); oracle: any-fit invariant on every pair of bins (sum of the earlier bin + "
            "first item of the later bin > binsize) and bins <= floor(1.7 OPT), FFD <= 11/9 OPT + 6/9, BFD <= 11/9 OPT + 4 with OPT from "
            "the exact bitmask DP; non-trivial = >= 3 bins and more bins than the optimum",
            strategy=small_cases(), n_quick=5000, n_thorough=100000, valid=valid, shrink=shrink, floor=0.05, target=True),
        Leg("larger", evaluate, "hypothesis: 15-60 items; any-fit invariant on every pair of bins (no optimum available: count bounds "
            "not checked); non-trivial = >= 3 bins", strategy=larger_cases(), n_quick=1500, n_thorough=30000, valid=valid, shrink=shrink, floor=0.3),
        Leg("planted", evaluate, "hypothesis: 2-25 exactly-full bins cut into 1-5 parts, shuffled / ascending / as built: OPT known by "
            "construction; invariant and count bounds; same rule", strategy=planted_cases(), n_quick=1500, n_thorough=30000, valid=valid,
            shrink=shrink, floor=0.1),
        Leg("classical", evaluate, "hypothesis: the classical 5/3 arrival order for first fit (items just above 1/7, 1/3, 1/2 of the bin), "
            "worst / reversed / shuffled order, OPT = m by construction; same rule", strategy=classical_families(), n_quick=200,
            n_thorough=3000, valid=valid, shrink=shrink, shards=4),
    ]


def main():
    oracles.validate_oracles(("packing",))
    return runner.run_check(PROP, legs(env.tier()), level="exploration", assumptions=[
        "bin order in the Partition output is the opening order and the first item of a bin is the one that opened it",
        "OPT from the exact bitmask DP (<= 14 positive items) or by construction (exactly-full planted bins; one-of-each classical family); "
        "a non-empty all-zero input has OPT 1",
        "0 <= value <= binsize; fractions are multiples of 1/8"])
