"""
C14 - simple heuristics compute exactly what their textbook definitions prescribe.
"""
from fractions import Fraction

from hypothesis import strategies as st

from .. import cases, common, env, refmodels, runner, strategies as S, sut
from ..runner import Failure, Leg, Result

PROP = "C14"
ALGS = ["greedy", "roundrobin", "ff", "ffd", "bf", "bfd", "decreasing", "twothirds", "threequarters"]


def evaluate(case):
    alg, values = case["alg"], case["values"]
    den = case.get("den", 1)
    param = case["numbins"] if "numbins" in case else sut.num(sut.binsize_of(case))
    ev = sut.exact_values(values, den)
    labels = [f"alg={alg}", f"pres={case.get('pres', 'list')}", f"profile={case.get('profile', '-')}"]
    ref = refmodels.REFERENCE[alg](ev, param)
    sums_only = alg in refmodels.SUMS_ONLY
    canon = refmodels.canon_sums if sums_only else refmodels.canon_bins
    want = canon(ref)
    p, o = sut.run_case(case, "Partition")
    fails = []
    if not o.ok:
        fails.append(Failure(common.exception_bucket(PROP, alg, o), o.describe()))
    else:
        try:
            got_bins = [[p.value(x) for x in b] for b in o.value]
        except KeyError as e:
            got_bins = None
            fails.append(Failure(f"{PROP}/{alg}/unknown-item", {"item": str(e)}))
        if got_bins is not None and canon(got_bins) != want:
            fails.append(Failure(f"{PROP}/{alg}/differs-from-textbook-rule",
                                 {"compared": "sorted bin sums" if sums_only else "bins as multiset of value multisets",
                                  "got": sut.jsonable(canon(got_bins)), "reference": sut.jsonable(want)}))
    # non-trivial: flipping one comparison of the rule would change the answer on this very case
    sensitive = [f for f in refmodels.FLIPS[alg] if canon(refmodels.REFERENCE[alg](ev, param, flip=f)) != want]
    labels += [f"sensitive:{alg}:{f}" for f in sensitive]
    boundary = [f for f in sensitive if f not in ("ascending", "unsorted", "most-loaded", "emptiest")]
    if boundary:
        labels.append("boundary-sensitive")
    return Result(fails, labels, bool(sensitive), None,
                  o.describe() if not o.ok else {"bins": sut.jsonable(o.value), "flips_visible": sensitive})


@st.composite
def random_cases(draw):
    alg = draw(st.sampled_from(ALGS))
    pres = draw(st.sampled_from(["list", "list", "list", "array", "dict-str", "dict-int", "names", "names-array", "dict-mixed"]))
    nseed = draw(st.integers(0, 5))
    if alg in ("greedy", "roundrobin"):
        k = draw(S.bin_counts(1, 6))
        profile, values = draw(S.values_lists(1, 40, numbins=k))
        return {"alg": alg, "values": values, "numbins": k, "pres": pres, "nseed": nseed, "profile": profile}
    C = draw(S.binsizes())
    if alg in cases.PACKERS:
        profile, values = draw(S.packing_values(C, 1, 40))
        case = {"alg": alg, "values": values, "binsize": C, "pres": pres, "nseed": nseed, "profile": profile}
        if draw(st.integers(0, 5)) == 0:
            case["den"] = 8
        return case
    profile, values = draw(S.covering_values(C, 1, 40))
    return {"alg": alg, "values": values, "binsize": C, "pres": pres, "nseed": nseed, "profile": profile}


@st.composite
def boundary_cases(draw):
    """Ties, items that exactly fill / cover a bin, and the class thresholds, for bin sizes divisible and not by 2 and 3."""
    alg = draw(st.sampled_from(["ff", "ffd", "bf", "bfd", "decreasing", "twothirds", "threequarters", "threequarters"]))
    C = draw(st.sampled_from([6, 9, 10, 12, 13, 14, 15, 18, 20, 24, 30, 60]))
    pool = sorted({x for x in (C // 2 - 1, C // 2, C // 2 + 1, (C + 1) // 2, C // 3 - 1, C // 3, C // 3 + 1,
                               (C + 2) // 3, C // 4, C // 6, 1, 2, C - C // 2, C - C // 3, C - 1, C) if 1 <= x <= C})
    values = draw(st.lists(st.sampled_from(pool), min_size=2, max_size=24))
    return {"alg": alg, "values": values, "binsize": C, "pres": draw(st.sampled_from(["list", "list", "dict-str", "dict-int"])),
            "nseed": draw(st.integers(0, 5)), "profile": "boundaries"}


@st.composite
def large_cases(draw):
    """All nine heuristics on 40-300 items (greedy / round robin with up to 40 bins): size thresholds, many bins, long runs."""
    alg = draw(st.sampled_from(ALGS))
    pres = draw(st.sampled_from(["list", "list", "array", "dict-str", "dict-int", "names", "names-array"]))
    nseed = draw(st.integers(0, 5))
    n = draw(st.sampled_from([40, 64, 65, 100, 128, 129, 200, 256, 257, 300])) + draw(st.integers(0, 3))
    seed = draw(st.integers(0, 2 ** 40))
    if alg in ("greedy", "roundrobin"):
        k = draw(st.sampled_from([2, 3, 7, 8, 9, 16, 17, 32, 33, 40]))
        hi = draw(st.sampled_from([9, 1000, 10 ** 6]))
        return {"alg": alg, "values": S.splitmix(seed, n, 0 if seed % 4 == 0 else 1, hi), "numbins": k, "pres": pres, "nseed": nseed,
                "profile": f"large-uniform-{hi}"}
    C = draw(st.sampled_from([10, 12, 30, 100, 101, 1000]))
    if alg in cases.PACKERS:
        style = draw(st.sampled_from(["uniform", "small", "big", "few-values"]))
        lo, hi = {"uniform": (0 if seed % 4 == 0 else 1, C), "small": (1, max(1, C // 3)), "big": (C // 3, C), "few-values": (1, C)}[style]
        values = S.splitmix(seed, n, lo, hi)
        if style == "few-values":
            pool = S.splitmix(seed + 1, 3, 1, C)
            values = [pool[i] for i in S.splitmix(seed, n, 0, 2)]
        return {"alg": alg, "values": values, "binsize": C, "pres": pres, "nseed": nseed, "profile": "large-" + style}
    style = draw(st.sampled_from(["uniform", "small", "classes", "with-big"]))
    if style == "classes":     # values around the class boundaries of the 2/3 and 3/4 algorithms
        pool = sorted({x for x in (C // 2 - 1, C // 2, C // 2 + 1, C // 3 - 1, C // 3, C // 3 + 1, 1, 2, C - 1, C) if x >= 1})
        values = [pool[i] for i in S.splitmix(seed, n, 0, len(pool) - 1)]
    else:
        lo, hi = {"uniform": (1, C), "small": (1, max(1, C // 4)), "with-big": (1, 2 * C)}[style]
        values = S.splitmix(seed, n, lo, hi)
    return {"alg": alg, "values": values, "binsize": C, "pres": pres, "nseed": nseed, "profile": "large-" + style}


def valid_large(case):
    v = case.get("values")
    if case.get("alg") not in ALGS or not isinstance(v, list) or not (1 <= len(v) <= 400) or not all(isinstance(x, int) for x in v):
        return False
    if "numbins" in case:
        return case["alg"] in ("greedy", "roundrobin") and isinstance(case["numbins"], int) and 1 <= case["numbins"] <= 64 and min(v) >= 0
    if case["alg"] in cases.PACKERS:
        return cases.valid_packing_case(case)
    return case["alg"] in ("decreasing", "twothirds", "threequarters") and cases.valid_covering_case(case)


def valid(case):
    if "numbins" in case:
        return cases.valid_partition_case(dict(case, alg="greedy"))
    if case["alg"] in cases.PACKERS:
        return cases.valid_packing_case(case)
    return cases.valid_covering_case(case)


def legs(tier):
    return [
        Leg("corpus", evaluate, "committed regression inputs and docstring examples", corpus=common.load_corpus(PROP),
            valid=valid, shards=2),
        Leg("random", evaluate,
            "hypothesis: the nine simple heuristics on C01/C03/C05 inputs of up to 40 items; oracle = transcription of the "
            "documented rule (pbt/refmodels.py): sorted sums for greedy/bf/bfd, bins as multisets for the rest; "
            "non-trivial = flipping one comparison (<= vs <, >= vs >, order, class threshold) in the reference changes its "
            "answer on this very case, i.e. a one-character change of that comparison would be caught by it",
            strategy=random_cases(), n_quick=10000, n_thorough=300000, valid=valid, floor=0.3),
        Leg("large-inputs", evaluate, "hypothesis: the nine heuristics on 40-303 items (sizes around powers of two included; greedy / round "
            "robin with 2-40 bins; class-boundary values for the covers), seven presentations; same oracle and rule",
            strategy=large_cases(), n_quick=1200, n_thorough=24000, valid=valid_large, floor=0.3),
        Leg("boundaries", evaluate, "hypothesis: values at C/2, C/3, C-C/2, C-C/3 (+-1), exact fills and ties; same rule",
            strategy=boundary_cases(), n_quick=4000, n_thorough=100000, valid=valid, floor=0.3),
    ]


def main():
    return runner.run_check(PROP, legs(env.tier()), level="exploration", assumptions=[
        "the reference models in pbt/refmodels.py are the documented rules (docstrings; Csirik-Frenk-Labbe-Zhang 1999)",
        "greedy, best-fit and best-fit-decreasing are compared on the multiset of sums only (ties between equally "
        "loaded bins leave the bin choice free and the multiset of sums is invariant under it)"])
