"""
C02 - exact partitioners attain the true optimum of their objective.
"""
import itertools

from hypothesis import strategies as st

from .. import fuzz_target, cases, common, env, oracles, preds, refmodels, runner, strategies as S, sut
from ..runner import Failure, Leg, Result

PROP = "C02"
KNOWN_RNP = f"{PROP}/rnp/numbins>=6"
DIFF_ONLY = ("ckk", "snp", "rnp", "cbldm")


def spec_of(case):
    if case["alg"] in DIFF_ONLY:
        return "diff"
    return (case.get("opts") or {}).get("objective", "diff")


def check_optimal(case):
    spec = spec_of(case)

    def fn(p, o):
        if not o.ok:
            return [("exception", f"{o.exc_type}@{o.where}")]
        if case.get("out") == "Sums":
            # the sums-only path (another bins-manager, in places another code path): the sums must be those of SOME partition of the
            # items into numbins bins - at least the right count and total - and attain the optimum
            real_sums = list(o.value)
            if len(real_sums) != case["numbins"]:
                return [("Sums:wrong-number-of-bins", f"{len(real_sums)} for numbins={case['numbins']}")]
            if sum(real_sums) != sum(case["values"]):
                return [("Sums:total-differs-from-the-items", f"{real_sums} vs total {sum(case['values'])}")]
            if len(case["values"]) <= 10 and tuple(sorted(real_sums)) not in oracles.sum_vectors(case["values"], case["numbins"]):
                return [("Sums:not-the-sums-of-any-partition", f"{sorted(real_sums)}")]
        else:
            sums, bins = o.value
            probs = preds.partition_problems(p, bins, case["numbins"])
            if probs:
                return probs
            real_sums = preds.bin_sums(p, bins)
            if sorted(real_sums) != sorted(sums):
                return [("sums-do-not-describe-bins", f"{sums} vs {real_sums}")]
        got = oracles.objective_value(spec, real_sums)[0]
        want = oracles.opt(case["values"], case["numbins"], spec)
        if got != want:
            return [("suboptimal", f"objective {spec}: got {got}, optimum {want}, sums {sorted(real_sums)}")]
        return []
    return fn


def evaluate(case):
    alg, k, values = case["alg"], case["numbins"], case["values"]
    spec = spec_of(case)
    ot = "Sums" if case.get("out") == "Sums" else "PartitionAndSumsTuple"
    labels = [f"alg={alg}", f"obj={spec.split(':')[0]}", f"profile={case.get('profile', '-')}", f"k={k}", f"out={ot}"]
    labels += S.value_labels(values, k)
    p, o = sut.run_case(case, ot)
    fails, inconclusive = [], None
    if not o.ok and common.rnp_known(PROP, case, o):
        fails.append(Failure(KNOWN_RNP, {"raised": o.exc_type, "where": o.where}))
    elif not o.ok:
        fails.append(Failure(common.exception_bucket(PROP, alg, o), o.describe()))
    else:
        probs = check_optimal(case)(p, o)
        if probs and alg == "ilp" and common.ilp_retry(case, ot, check_optimal(case)):
            inconclusive, probs = "solver-inconsistency", []
        fails += common.failures_from(PROP, alg, probs)
    # non-trivial: the LPT partition is not optimal for this objective (the search had to improve on its first leaf)
    lpt_sums = [sum(b) for b in refmodels.lpt(values, k)]
    lpt_val = oracles.objective_value(spec, lpt_sums)[0]
    optimum = oracles.opt(values, k, spec)
    nontrivial = lpt_val != optimum
    if nontrivial:
        labels.append("LPT-not-optimal")
    summary = o.describe() if not o.ok else {"sums": sut.jsonable(o.value if ot == "Sums" else o.value[0]), "optimum": sut.jsonable(optimum),
                                              "lpt": sut.jsonable(lpt_val)}
    return Result(fails, labels, nontrivial, inconclusive, summary)


ALL_SWITCHES = [list(t) for t in itertools.product((0, 1), repeat=4)]


def configurations(k):
    """Every (algorithm, options) the statement names."""
    out = []
    kspecs = sorted({1, 2, k, k + 1})
    objs = ["minmax", "maxmin", "diff"] + [f"klargest:{j}" for j in kspecs] + [f"ksmallest:{j}" for j in kspecs]
    for a in ("dp", "ilp"):
        for ob in objs:
            out.append((a, {"objective": ob}))
    for ob in S.CG_OBJECTIVES:
        for sw in ALL_SWITCHES:
            out.append(("cg", {"objective": ob, "switches": sw}))
    for a in ("ckk", "snp", "rnp"):
        out.append((a, None))
    if k == 2:
        out.append(("cbldm", None))          # two bins only, by contract; default (unbounded) cardinality difference
    return out


def exhaustive_cases(tier):
    """All multisets of <= 6 values from 0..6 and from 1..7 x numbins 1..4 x every configuration."""
    idx = 0
    quick = tier == "quick"
    for lo in (0, 1):
        for n in range(1, 7):
            for values in itertools.combinations_with_replacement(range(lo, lo + 7), n):
                if lo == 1 and 7 not in values:
                    continue            # already covered by the 0..6 scope
                for k in range(1, 5):
                    for alg, opts in configurations(k):
                        idx += 1
                        if quick and (idx * 2654435761 + env.seed()) % 50 != 0:
                            continue
                        if not quick and alg == "ilp" and (idx + env.seed()) % 4 != 0:
                            continue
                        case = {"alg": alg, "values": list(values), "numbins": k, "pres": "list", "nseed": 0}
                        if opts:
                            case["opts"] = opts
                        if (idx + env.seed()) % 3 == 0:
                            case["out"] = "Sums"
                        yield case
    # many bins, tiny values: complete greedy / ckk / snp with 5 and 6 bins (seen-state and pairing keys must keep multiplicities)
    for n in range(2, 7):
        for values in itertools.combinations_with_replacement(range(0, 5), n):
            for k in (5, 6):
                for alg, opts in ([("cg", {"objective": ob, "switches": sw}) for ob in S.CG_OBJECTIVES for sw in ([1, 1, 0, 1], [0, 0, 0, 1], [1, 1, 1, 1])]
                                  + [("ckk", None), ("snp", None)]):
                    idx += 1
                    if quick and (idx * 2654435761 + env.seed()) % 12 != 0:
                        continue
                    case = {"alg": alg, "values": list(values), "numbins": k, "pres": "list", "nseed": 0}
                    if opts:
                        case["opts"] = opts
                    if (idx + env.seed()) % 2 == 0:
                        case["out"] = "Sums"
                    yield case


@st.composite
def random_cases(draw):
    case = draw(cases.partition_cases(algs=cases.EXACT_PARTITIONERS, oracle=True, max_bins=5,
                                      presentations=["list", "list", "list", "dict-str", "array", "names-array", "dict-int"],
                                      profiles=["tiny", "small", "small", "medium", "large", "huge", "two-valued",
                                                "one-dominant", "one-dominant", "planted", "planted", "planted",
                                                "arithmetic", "all-equal"]))
    if draw(st.integers(0, 2)) == 0:
        case["out"] = "Sums"
    return case


@st.composite
def rnp_known_region(draw):
    k = draw(st.integers(6, 7))
    _, values = draw(S.values_lists(3, 7, numbins=k, profiles=["tiny", "small", "one-dominant"]))
    return {"alg": "rnp", "values": values, "numbins": k, "pres": "list", "nseed": 0, "known_region": True}


DEEP_SIZES = {2: 10, 3: 10, 4: 9, 5: 8, 6: 7}


@st.composite
def deep_cases(draw):
    """The search algorithms at the largest sizes the exhaustive oracle still covers, on evenly spread values: the region where
    nested pruning (SNP / RNP recursion below the first level, CKK and complete-greedy bounds deep in the tree) is exercised."""
    alg = draw(st.sampled_from(["snp", "snp", "snp", "rnp", "rnp", "ckk", "cg"]))
    k = draw(st.sampled_from([3, 4, 4, 4, 4, 5]))
    n = DEEP_SIZES[k] - draw(st.sampled_from([0, 0, 0, 0, 0, 0, 0, 1]))
    profile = draw(st.sampled_from(["uniform-200", "uniform-200", "uniform-40", "uniform-10^6", "near-equal-large", "near-equal-large"]))
    seed = draw(st.integers(0, 2 ** 40))
    if profile == "uniform-200":
        values = S.splitmix(seed, n, 1, 200)
    elif profile == "uniform-40":
        values = S.splitmix(seed, n, 1, 40)
    elif profile == "uniform-10^6":
        values = S.splitmix(seed, n, 1, 10 ** 6)
    else:
        values = S.near_equal_large(seed, n, draw(st.sampled_from(S.NEAR_EQUAL_BASES)))
    if draw(st.integers(0, 3)) == 0:
        # many bins, small repeated values: 5-6 bins, 6-8 items from 0..12 with a few distinct values
        k = draw(st.sampled_from([5, 5, 6]))
        n = draw(st.integers(6, 8 if k == 5 else 7))
        pool = draw(st.lists(st.integers(0, 12), min_size=2, max_size=4))
        values = [pool[i % len(pool)] for i in S.splitmix(seed, n, 0, 11)]
        profile = "many-bins-small-values"
        if alg == "rnp" and k > 5:
            alg = "snp"
    case = {"alg": alg, "values": values, "numbins": k, "pres": "list", "nseed": 0, "profile": "deep-" + profile}
    if alg == "cg":
        case["opts"] = {"objective": draw(st.sampled_from(S.CG_OBJECTIVES)), "switches": draw(st.sampled_from([[1, 1, 0, 1], [1, 1, 1, 1], [1, 0, 0, 1]]))}
    if draw(st.integers(0, 2)) == 0:
        case["out"] = "Sums"
    return case


@st.composite
def two_way_large_cases(draw):
    """Two bins, 11-16 items: beyond the exhaustive envelope, with ground truth from a subset-sum DP."""
    alg = draw(st.sampled_from(["ckk", "snp", "rnp", "cg", "cg", "dp", "cbldm-free"]))
    n = draw(st.integers(11, 14 if alg == "cg" else 16))
    profile = draw(st.sampled_from(["uniform-200", "uniform-200", "uniform-1000", "near-equal-large", "planted"]))
    seed = draw(st.integers(0, 2 ** 40))
    if profile == "uniform-200" or alg == "dp":
        profile, values = "uniform-200", S.splitmix(seed, n, 1, 200)
    elif profile == "uniform-1000":
        values = S.splitmix(seed, n, 1, 1000)
    elif profile == "near-equal-large":
        values = S.near_equal_large(seed, n, draw(st.sampled_from([10 ** 6, 2 ** 24, 2 ** 40])))
    else:
        values = list(draw(S.planted_values(2, n, max_sum=500)))[:n]
    case = {"alg": alg, "values": values, "numbins": 2, "pres": "list", "nseed": 0, "profile": "2way-" + profile}
    if alg == "cbldm-free":
        case["alg"] = "cbldm"
    if alg == "cg":
        case["opts"] = {"objective": draw(st.sampled_from(S.CG_OBJECTIVES)), "switches": draw(st.sampled_from([[1, 1, 0, 1], [1, 1, 1, 1], [0, 1, 0, 1]]))}
    elif alg == "dp":
        case["opts"] = {"objective": draw(S.objective_specs(2))}
    if draw(st.integers(0, 2)) == 0:
        case["out"] = "Sums"
    return case


@st.composite
def three_way_large_cases(draw):
    """Three bins, 11-13 items: beyond the exhaustive envelope, with ground truth from the two-dimensional subset-sum table."""
    alg = draw(st.sampled_from(["ckk", "snp", "snp", "rnp", "cg", "cg"]))
    n = draw(st.integers(11, 12 if alg == "ckk" else 13))
    hi = draw(st.sampled_from([20, 60, 60, 200, 1000]))
    values = S.splitmix(draw(st.integers(0, 2 ** 40)), n, 1, hi)
    case = {"alg": alg, "values": values, "numbins": 3, "pres": "list", "nseed": 0, "profile": f"3way-uniform-{hi}"}
    if alg == "cg":
        case["opts"] = {"objective": draw(st.sampled_from(S.CG_OBJECTIVES)), "switches": draw(st.sampled_from([[1, 1, 0, 1], [1, 1, 1, 1], [1, 0, 0, 1]]))}
    if draw(st.integers(0, 2)) == 0:
        case["out"] = "Sums"
    return case


def valid_three_way(case):
    v = case.get("values")
    return (case.get("numbins") == 3 and isinstance(v, list) and 1 <= len(v) <= 13 and all(isinstance(x, int) and x >= 0 for x in v)
            and sum(v) <= 40000 and case.get("alg") in ("ckk", "snp", "rnp", "cg"))


def valid_two_way(case):
    v = case.get("values")
    return (case.get("numbins") == 2 and isinstance(v, list) and 1 <= len(v) <= 16 and all(isinstance(x, int) and x >= 0 for x in v)
            and sum(v) < 2 ** 53 and case.get("alg") in ("ckk", "snp", "rnp", "cg", "dp", "cbldm"))


@st.composite
def nested_cases(draw):
    """SNP and RNP with 4 bins and 9 items: the smallest shape in which their recursion has a nested level below the first one
    (a tree of candidate first bins inside a tree of candidate first bins), on evenly spread and on near-equal large values."""
    case = draw(deep_cases())
    seed = draw(st.integers(0, 2 ** 40))
    profile = draw(st.sampled_from(["uniform-200", "uniform-200", "uniform-10^6", "near-equal-large", "near-equal-large"]))
    if profile == "uniform-200":
        values = S.splitmix(seed, 9, 1, 200)
    elif profile == "uniform-10^6":
        values = S.splitmix(seed, 9, 1, 10 ** 6)
    else:
        values = S.near_equal_large(seed, 9, draw(st.sampled_from(S.NEAR_EQUAL_BASES)))
    out = {"alg": draw(st.sampled_from(["snp", "snp", "rnp"])), "values": values, "numbins": 4, "pres": "list", "nseed": 0,
           "profile": "nested-" + profile}
    if case.get("out"):
        out["out"] = case["out"]
    return out


@st.composite
def dp_large_layer_cases(draw):
    """Dynamic programming where its layers of states get large (3 bins x 9-10 items, 4 bins x 7-8 items), with the objectives other than
    min-max: a pruning of states that is only valid for one objective shows here (expensive: about half a second per case)."""
    k = draw(st.sampled_from([3, 3, 3, 4]))
    n = draw(st.integers(9, 10)) if k == 3 else draw(st.integers(7, 8))
    seed, hi = draw(st.integers(0, 2 ** 40)), draw(st.sampled_from([60, 100, 200]))
    values = S.splitmix(seed, n, 0, hi)
    profile = "dp-large-layers"
    if draw(st.integers(0, 2)) > 0:
        # the instance, out of 80 candidates, on which the objectives DISAGREE most about the best partition (relative gap between the
        # smallest largest-sum among the partitions with the best smallest sum and the min-max optimum): the inputs that tell an optimum
        # for the stated objective from an optimum - or a bound - for another one
        best_gap = 0
        for j in range(1, 81):
            cand = S.splitmix(seed + 7919 * j, n, 0, hi)
            vecs = oracles.sum_vectors(cand, k)
            best_min, minmax = max(v[0] for v in vecs), min(v[-1] for v in vecs)
            gap = (min(v[-1] for v in vecs if v[0] == best_min) - minmax) / max(1, minmax)
            if gap > best_gap:
                best_gap, values, profile = gap, cand, "dp-large-layers-conflicting-objectives"
    spec = draw(st.sampled_from(["maxmin", "maxmin", "diff", f"klargest:{draw(st.integers(1, k))}", f"ksmallest:{draw(st.integers(1, k))}", "minmax"]))
    case = {"alg": "dp", "values": values, "numbins": k, "pres": "list", "nseed": 0, "profile": profile, "opts": {"objective": spec}}
    if draw(st.integers(0, 2)) == 0:
        case["out"] = "Sums"
    return case


@st.composite
def rnp_five_cases(draw):
    """rnp with five bins - the only shape in which its odd step (a first bin from the inclusion-exclusion tree) is followed by its
    even step (a two-way split of the rest, each half split again): 9-10 evenly spread items, cheap enough for thousands of cases."""
    seed = draw(st.integers(0, 2 ** 48))
    n = 9 if seed % 3 else 10
    hi = [20, 60, 60, 200, 1000][(seed >> 3) % 5]
    return {"alg": "rnp", "values": S.splitmix(seed >> 8, n, 1, hi), "numbins": 5, "pres": "list", "nseed": 0, "profile": f"rnp-5-bins-uniform-{hi}"}


@st.composite
def five_six_bins_cases(draw):
    """snp / ckk / complete greedy with 5 bins x 9-10 items and 6 bins x 8-9 items (complete greedy one item fewer) on evenly spread
    values: the largest shapes the exhaustive oracle still decides; mostly a thorough-tier leg."""
    seed = draw(st.integers(0, 2 ** 48))
    alg = ["snp", "ckk", "cg"][seed % 3]
    k = [5, 5, 6][(seed >> 2) % 3]
    n = (8 + (seed >> 4) % 2) if k == 6 else (9 + (seed >> 4) % 2)
    if alg == "cg":
        n -= 1
    hi = [20, 60, 200, 1000][(seed >> 6) % 4]
    case = {"alg": alg, "values": S.splitmix(seed >> 10, n, 1, hi), "numbins": k, "pres": "list", "nseed": 0, "profile": f"{k}-bins-uniform-{hi}"}
    if alg == "cg":
        case["opts"] = {"objective": ["diff", "minmax", "maxmin"][(seed >> 8) % 3]}
    return case


def valid_five_six(case):
    v = case.get("values")
    return (case.get("alg") in ("snp", "ckk", "cg") and case.get("numbins") in (2, 3, 4, 5, 6) and isinstance(v, list) and 1 <= len(v) <= 10
            and all(isinstance(x, int) and x >= 0 for x in v))


@st.composite
def few_values_cases(draw):
    """snp / rnp / ckk / complete greedy on 8-10 items drawn from 2-4 distinct values, 3-4 bins, as a plain list (the items ARE the values):
    candidate sub-collections that differ only in how many copies of a value they hold."""
    seed = draw(st.integers(0, 2 ** 48))
    alg = ["snp", "snp", "rnp", "rnp", "ckk", "cg"][seed % 6]
    k = [3, 3, 4][(seed >> 3) % 3]
    n = 8 + (seed >> 5) % 3 - (1 if alg == "cg" and k == 4 else 0)
    pool = S.splitmix(seed >> 8, 2 + (seed >> 7) % 3, 1, [15, 15, 40][(seed >> 10) % 3])
    values = [pool[i] for i in S.splitmix(seed >> 12, n, 0, len(pool) - 1)]
    return {"alg": alg, "values": values, "numbins": k, "pres": ["list", "list", "array"][(seed >> 20) % 3], "nseed": 0, "profile": "few-distinct-values"}


def valid_few_values(case):
    v = case.get("values")
    return (case.get("alg") in ("snp", "rnp", "ckk", "cg") and case.get("numbins") in (2, 3, 4) and isinstance(v, list) and 1 <= len(v) <= 10
            and all(isinstance(x, int) and x >= 0 for x in v))


def valid_rnp_five(case):
    v = case.get("values")
    return (case.get("alg") == "rnp" and case.get("numbins") in (3, 4, 5) and isinstance(v, list) and 1 <= len(v) <= 10
            and all(isinstance(x, int) and x >= 0 for x in v))


def valid_dp_large(case):
    v = case.get("values")
    return (case.get("alg") == "dp" and isinstance(v, list) and 1 <= len(v) <= 10 and all(isinstance(x, int) and x >= 0 for x in v)
            and case.get("numbins") in (1, 2, 3, 4))


def valid_deep(case):
    if not cases.valid_partition_case(dict(case, alg="greedy")):
        return False
    return case["alg"] in ("snp", "rnp", "ckk", "cg") and 2 <= case["numbins"] <= 6 and len(case["values"]) <= DEEP_SIZES.get(case["numbins"], 10)


def valid(case):
    if not cases.valid_partition_case(case):
        return False
    return len(case["values"]) <= cases.max_items(case["alg"], case["numbins"], oracle=True)


def legs(tier):
    rule = ("hypothesis: exact algorithm x configuration (dp/ilp: 5 objective kinds; cg: 3 objectives x 4 switches; "
            "ckk/snp/rnp) on <=10 items biased to planted / one-dominant / tiny profiles, 1-5 bins; oracle = minimum of "
            "my own objective definition over all reachable sum vectors; non-trivial = the LPT partition is NOT optimal "
            "for that objective")
    return [
        Leg("corpus", evaluate, "committed regression inputs", corpus=common.load_corpus(PROP), valid=valid, shards=4),
        Leg("random", evaluate, rule, strategy=random_cases(), n_quick=6000, n_thorough=200000, valid=valid, floor=0.05),
        Leg("exhaustive-small", evaluate,
            "all multisets of <=6 values from 0..6 and 1..7 x numbins 1..4 x every configuration incl. all 16 switch "
            "combinations (quick: 2% slice; ILP a quarter per thorough run); same non-triviality rule",
            enum=exhaustive_cases, valid=valid, exhaustive=True,
            scope="multisets(<=6 from 0..7) x numbins 1..4 x (dp,ilp x 3+2*|{1,2,k,k+1}| objectives; cg x 3 x 16; ckk; snp; rnp)"),
        Leg("deep", evaluate,
            "hypothesis: snp / rnp / ckk / complete greedy at the largest sizes the oracle covers (10 items x 3 bins, 9 x 4, 8 x 5) on "
            "evenly spread values (1..40, 1..200, 1..10^6, near-equal large values), and with 5-6 bins on 6-8 small repeated values; a third of the "
            "cases through the sums-only output type (another bins-manager); same oracle and non-triviality rule",
            strategy=deep_cases(), n_quick=1400, n_thorough=40000, valid=valid_deep, floor=0.1),
        Leg("nested-recursion", evaluate,
            "hypothesis: snp / rnp with exactly 4 bins and 9 items (the smallest shape with a nested recursion level) on values 1..200, 1..10^6 "
            "and near-equal large values; same oracle and non-triviality rule",
            strategy=nested_cases(), n_quick=1400, n_thorough=30000, valid=valid_deep, floor=0.1),
        Leg("rnp-five-bins", evaluate,
            "hypothesis: rnp with exactly 5 bins on 9-10 evenly spread items (values up to 20 ... 1000): the one shape in which its odd and "
            "its even step are nested; same oracle and rule", strategy=rnp_five_cases(), n_quick=4000, n_thorough=60000,
            valid=valid_rnp_five, floor=0.03, shards=16),
        Leg("few-distinct-values", evaluate,
            "hypothesis: snp / rnp / ckk / complete greedy on 8-10 items drawn from 2-4 distinct values, 3-4 bins, as a list or an array; "
            "same oracle and rule", strategy=few_values_cases(), n_quick=5000, n_thorough=20000, valid=valid_few_values, floor=0.02, shards=16),
        Leg("five-six-bins", evaluate,
            "hypothesis: snp / ckk / complete greedy (three objectives) with 5 bins x 9-10 items and 6 bins x 8-9 items, values up to 20 ... 1000; "
            "same oracle and rule", strategy=five_six_bins_cases(), n_quick=480, n_thorough=40000, valid=valid_five_six, floor=0.03, shards=16),
        Leg("dp-large-layers", evaluate,
            "hypothesis: dp with 3 bins x 9-10 items and 4 bins x 7-8 items (layers of more than a thousand states), objectives max-min, "
            "difference, k-largest, k-smallest, min-max; two thirds of the inputs selected (by the oracle, out of 80 candidates) as the one "
            "on which the objectives disagree most about the best partition; same oracle and rule (about half a second per case)", strategy=dp_large_layer_cases(), n_quick=160, n_thorough=6000, valid=valid_dp_large, floor=0.2,
            shards=16),
        Leg("two-way-large", evaluate,
            "hypothesis: two bins, 11-16 items (complete greedy <= 14), values 1..200 / 1..1000 / near-equal large / planted: beyond the "
            "exhaustive envelope, with ground truth from a subset-sum DP (bitset); ckk, snp, rnp, complete greedy, dp and cbldm (default bound); "
            "same non-triviality rule", strategy=two_way_large_cases(), n_quick=500, n_thorough=20000, valid=valid_two_way, floor=0.3),
        Leg("three-way-large", evaluate,
            "hypothesis: three bins, 11-13 items (ckk <= 12), values up to 20 ... 1000: beyond the exhaustive envelope, with ground truth from "
            "a two-dimensional subset-sum table; ckk, snp, rnp, complete greedy (three objectives); same non-triviality rule",
            strategy=three_way_large_cases(), n_quick=1500, n_thorough=40000, valid=valid_three_way, floor=0.3, shards=16),
        Leg("known-rnp>=6", evaluate, "rnp with 6-7 bins: the region of the recorded known finding",
            strategy=rnp_known_region(), n_quick=40, n_thorough=400, shards=1, valid=cases.valid_partition_case),
        fuzz_target.fuzz_leg(PROP, 60000, evaluate, valid_deep),
    ]


def main():
    oracles.validate_oracles(("partition",))
    return runner.run_check(PROP, legs(env.tier()), level="exploration", assumptions=[
        "optimum taken from an exhaustive enumeration of reachable sum vectors (validated against brute force at start)",
        "instances limited to <=10 items / <=5 bins by the exponential oracle and algorithms",
        "ILP values <= 200; solver inconsistencies told apart by re-solving with preprocessing off",
        "rnp generated with <= 5 bins in the main legs (known finding)",
    ])
