"""
C13 - search bounds are admissible and search enumerators are complete.
Three sub-properties on documented extension points, called directly.
"""
import itertools
from collections import Counter
from fractions import Fraction

from hypothesis import strategies as st

from .. import common, env, oracles, runner, strategies as S, sut
from ..runner import Failure, Leg, Result

PROP = "C13"
SPECS = ["minmax", "maxmin", "diff"]


# ------------------------------------------------------------------ (a) lower bounds

def evaluate_bound(case):
    spec, sums, R, seq = case["spec"], sorted(case["sums"]), case["remaining"], case.get("seq", "list")
    labels = [f"bound:{spec}", f"seq={seq}", f"k={len(sums)}"]
    fails = []
    calls = {}
    for tag, vec, declared in (("sorted/True", sums, True), ("sorted/False", sums, False), ("sorted/omitted", sums, None),
                               ("shuffled/False", case.get("shuffled", sums), False)):
        o, after = sut.objective_call(spec, vec, seq, declared_sorted=declared, method="lower_bound", remaining=R)
        if not o.ok:
            fails.append(Failure(f"{PROP}/bound/{spec}/exception:{o.exc_type}@{o.where}", dict(o.describe(), call=tag)))
            continue
        if after != [sut.num(x) for x in vec]:
            labels.append("argument-modified-by-lower_bound")       # not part of this property's statement: counted, not judged
        calls[tag] = o.value
    best = oracles.to_minimize(spec, oracles.water_fill(sums, R))       # best reachable value, 'smaller is better' form
    for tag, v in calls.items():
        if isinstance(v, float):        # +-inf / nan
            if v == float("-inf"):
                continue
            fails.append(Failure(f"{PROP}/bound/{spec}/not-a-finite-number", {"call": tag, "bound": repr(v)}))
            continue
        if v > best:
            fails.append(Failure(f"{PROP}/bound/{spec}/inadmissible",
                                 {"call": tag, "sums": sums, "remaining": R, "bound": sut.jsonable(v), "best_reachable": sut.jsonable(best)}))
    if len(set(map(repr, calls.values()))) > 1:
        fails.append(Failure(f"{PROP}/bound/{spec}/depends-on-sorted-flag-or-order", {k: sut.jsonable(v) for k, v in calls.items()}
                             | {"sums": sums, "remaining": R}))
    v0 = calls.get("sorted/True")
    tight = v0 is not None and not isinstance(v0, float) and v0 == best
    if tight:
        labels.append("bound-is-tight")
    nontrivial = R > 0 and v0 is not None and not isinstance(v0, float)
    return Result(fails, labels, nontrivial, None, {"bound": sut.jsonable(v0), "best_reachable": sut.jsonable(best)}, subcases=4)


def bound_scope(tier):
    """Every sorted k-vector over 0..5 (k <= 4) x remaining total 0..7 x 3 objectives; thorough adds k = 5, values 0..6, totals 0..9."""
    kmax, vmax, rmax = (5, 6, 9) if tier == "thorough" else (4, 5, 7)
    for k in range(1, kmax + 1):
        for sums in itertools.combinations_with_replacement(range(0, vmax + 1), k):
            for R in range(0, rmax + 1):
                for spec in SPECS:
                    yield {"kind": "bound", "spec": spec, "sums": list(sums), "remaining": R, "seq": "list",
                           "shuffled": list(reversed(sums))}


@st.composite
def bound_cases(draw):
    k = draw(st.integers(1, 8))
    style = draw(st.sampled_from(["small", "medium", "large", "near-level"]))
    if style == "small":
        sums = draw(st.lists(st.integers(0, 12), min_size=k, max_size=k))
        R = draw(st.integers(0, 40))
    elif style == "medium":
        sums = S.splitmix(draw(st.integers(0, 2 ** 40)), k, 0, 1000)
        R = draw(st.integers(0, 5000))
    elif style == "large":
        sums = S.splitmix(draw(st.integers(0, 2 ** 40)), k, 0, 10 ** 9)
        R = draw(st.integers(0, 10 ** 10))
    else:
        # remaining total exactly (or one off) what is needed to level the first j bins: the floor/ceil boundary
        sums = sorted(draw(st.lists(st.integers(0, 60), min_size=k, max_size=k)))
        j = draw(st.integers(1, k))
        need = sum(sums[j - 1] - s for s in sums[:j])
        R = max(0, need + draw(st.integers(-2, 2)) + draw(st.sampled_from([0, 0, j, k, 2 * k])))
    sums = sorted(sums)
    shuffled = list(draw(st.permutations(sums)))
    return {"kind": "bound", "spec": draw(st.sampled_from(SPECS)), "sums": sums, "remaining": R,
            "seq": draw(st.sampled_from(["list", "tuple", "iarray", "farray"])), "shuffled": shuffled}


# ------------------------------------------------------------------ (b) inclusion / exclusion tree

def evaluate_tree(case):
    values = case["values"]
    lo, hi = Fraction(case["lo2"], 2), Fraction(case["hi2"], 2)
    names = sut.str_names(values, case.get("nseed", 0))
    labels = ["tree", f"n={len(values)}"] + S.value_labels(values)
    lo_arg = float(lo) if lo.denominator != 1 else int(lo)
    hi_arg = float(hi) if hi.denominator != 1 else int(hi)
    o, untouched = sut.inex_tree_subsets(names, values, lo_arg, hi_arg, case.get("abandon_after"))
    if case.get("abandon_after") is not None:
        labels.append("second-enumeration-of-the-same-tree")
    if not o.ok:
        return Result([Failure(f"{PROP}/tree/exception:{o.exc_type}@{o.where}", o.describe())], labels, False, None, o.describe())
    fails = []
    if not untouched:
        labels.append("argument-modified-by-the-tree")              # not part of this property's statement: counted, not judged
    table = dict(zip(names, values))
    got = Counter()
    for subset in o.value:
        if len(set(subset)) != len(subset) or any(x not in table for x in subset):
            fails.append(Failure(f"{PROP}/tree/yielded-not-a-sub-collection", {"subset": subset}))
        got[tuple(sorted(subset))] += 1
    want = Counter()
    n = len(values)
    for mask in range(1 << n):
        sub = [names[i] for i in range(n) if mask >> i & 1]
        if lo <= sum(table[x] for x in sub) <= hi:
            want[tuple(sorted(sub))] += 1
    missing = want - got
    extra = got - want
    dup = {k: v for k, v in got.items() if v > 1 and k in want}
    def show(c):
        return [{"subset": list(k), "sum": sum(table[x] for x in k)} for k in sorted(c)[:3]]
    if dup:
        fails.append(Failure(f"{PROP}/tree/sub-collection-yielded-more-than-once", {"examples": show(dup), "window": [lo_arg, hi_arg]}))
        for k in dup:
            extra.pop(k, None)
    if missing:
        fails.append(Failure(f"{PROP}/tree/sub-collection-missing", {"examples": show(missing), "window": [lo_arg, hi_arg], "values": values}))
    if extra:
        fails.append(Failure(f"{PROP}/tree/sub-collection-outside-the-window", {"examples": show(extra), "window": [lo_arg, hi_arg]}))
    total = 1 << n
    inside = sum(want.values())
    on_edge = any(sum(table[x] for x in k) in (lo, hi) for k in want)
    if on_edge:
        labels.append("a-sum-on-the-window-edge")
    return Result(fails, labels, 0 < inside < total, None, {"yielded": len(o.value), "expected": inside, "of": total})


@st.composite
def tree_cases(draw):
    n = draw(st.integers(1, 10))
    values = draw(st.lists(st.integers(0, 9), min_size=n, max_size=n))
    total = sum(values)
    style = draw(st.sampled_from(["inner", "inner", "edge", "wide", "empty", "negative-lo", "halves"]))
    achievable = sorted({sum(c) for r in range(0, min(n, 4) + 1) for c in itertools.combinations(values, r)})
    if style == "inner":
        a, b = sorted([draw(st.integers(0, total)), draw(st.integers(0, total))])
        lo2, hi2 = 2 * a, 2 * b
    elif style == "edge":           # both ends are achievable subset sums
        a, b = sorted([draw(st.sampled_from(achievable)), draw(st.sampled_from(achievable))])
        lo2, hi2 = 2 * a, 2 * b
    elif style == "wide":
        lo2, hi2 = -2, 2 * total + 2
    elif style == "empty":
        a = draw(st.integers(0, total))
        lo2, hi2 = 2 * a + 2, 2 * a
    elif style == "negative-lo":
        lo2, hi2 = -2 * draw(st.integers(1, 5)), 2 * draw(st.integers(0, total))
    else:                          # t/k style fractional ends
        a, b = sorted([draw(st.integers(0, 2 * total)), draw(st.integers(0, 2 * total))])
        lo2, hi2 = a, b
    case = {"kind": "tree", "values": values, "lo2": lo2, "hi2": hi2, "nseed": draw(st.integers(0, 3))}
    if draw(st.integers(0, 3)) == 0:
        case["abandon_after"] = draw(st.integers(0, 4))       # the tree object was already partly enumerated once
    return case


def tree_scope(tier):
    """All value lists of <= 4 (quick) / 5 (thorough) items over 0..3 x every window with ends in 0..total+1 (integers)."""
    nmax = 5 if tier == "thorough" else 4
    for n in range(1, nmax + 1):
        for values in itertools.product(range(0, 4), repeat=n):
            total = sum(values)
            for lo in range(0, total + 2):
                for hi in range(lo - 1 if lo else 0, total + 2):
                    yield {"kind": "tree", "values": list(values), "lo2": 2 * lo, "hi2": 2 * hi, "nseed": 0}


# ------------------------------------------------------------------ (c) bin-combination enumerator

def evaluate_combos(case):
    manager = case["manager"]
    b1, b2 = case["bins1"], case["bins2"]          # lists of lists of values
    k = len(b1)
    labels = [f"combos:{manager}", f"k={k}"]
    # distinct names for all items of both arrays
    flat = [(a, i, j, v) for a, arr in enumerate((b1, b2)) for i, l in enumerate(arr) for j, v in enumerate(l)]
    names = {(a, i, j): f"{'pq'[a]}{i}{j}" for a, i, j, _ in flat}
    table = {names[(a, i, j)]: v for a, i, j, v in flat}
    n1 = [[names[(0, i, j)] for j in range(len(l))] for i, l in enumerate(b1)]
    n2 = [[names[(1, i, j)] for j in range(len(l))] for i, l in enumerate(b2)]
    s1, s2 = [sum(l) for l in b1], [sum(l) for l in b2]
    plain = manager == "contents" and case.get("items") == "values"
    if plain:
        # the items are plain numbers (their own value): equal values are indistinguishable, so pairings are distinct by value contents
        n1, n2 = [list(l) for l in b1], [list(l) for l in b2]
        table = None
        labels.append("items=plain-numbers")
    if manager == "sums":
        o = sut.all_combinations("sums", s1, s2)
    else:
        o = sut.all_combinations("contents", n1, n2, table)
    if not o.ok:
        return Result([Failure(f"{PROP}/combos/{manager}/exception:{o.exc_type}@{o.where}", o.describe())], labels, False, None, o.describe())
    want = set()
    for perm in itertools.permutations(range(k)):
        if manager == "sums":
            want.add(tuple(sorted(s1[perm[i]] + s2[i] for i in range(k))))
        else:
            want.add(tuple(sorted(tuple(sorted(n1[perm[i]] + n2[i])) for i in range(k))))
    got = Counter()
    fails = []
    for sums, lists in o.value:
        if len(sums) != k:
            fails.append(Failure(f"{PROP}/combos/{manager}/wrong-number-of-bins", {"sums": sut.jsonable(sums)}))
            continue
        if manager == "sums":
            got[tuple(sorted(sums))] += 1
        else:
            if [sum((table[x] if table is not None else x) for x in l) for l in lists] != list(sums):
                fails.append(Failure(f"{PROP}/combos/contents/sums-do-not-describe-contents", {"sums": sut.jsonable(sums), "lists": lists}))
            got[tuple(sorted(tuple(sorted(l)) for l in lists))] += 1
    dup = [kk for kk, v in got.items() if v > 1]
    missing = want - set(got)
    extra = set(got) - want
    ctx = {"bins1": b1, "bins2": b2}
    if dup:
        fails.append(Failure(f"{PROP}/combos/{manager}/pairing-yielded-more-than-once", dict(ctx, example=sut.jsonable(dup[0]), times=got[dup[0]])))
    if missing:
        fails.append(Failure(f"{PROP}/combos/{manager}/pairing-missing", dict(ctx, example=sut.jsonable(sorted(missing)[0]), missing=len(missing))))
    if extra:
        fails.append(Failure(f"{PROP}/combos/{manager}/pairing-invented", dict(ctx, example=sut.jsonable(sorted(extra)[0]))))
    tie = len(set(s1)) < k or len(set(s2)) < k
    if tie:
        labels.append("tie-in-sums")
    if manager == "contents" and any(s1[i] == s1[j] and sorted(b1[i]) != sorted(b1[j]) for i in range(k) for j in range(i)):
        labels.append("equal-sum-different-content")
    return Result(fails, labels, len(want) >= 2 and tie, None, {"yielded": len(o.value), "distinct_pairings": len(want)})


@st.composite
def combos_cases(draw):
    k = draw(st.sampled_from([1, 2, 3, 3, 4, 4, 5, 5, 5, 6]))
    manager = draw(st.sampled_from(["sums", "sums", "contents", "contents", "contents"]))

    def array():
        style = draw(st.sampled_from(["free", "tied", "tied", "empty-bins"]))
        bins = []
        for i in range(k):
            if style == "empty-bins" and draw(st.booleans()):
                bins.append([])
                continue
            bins.append(draw(st.lists(st.integers(0, 6), min_size=0, max_size=3)))
        if style == "tied" and k >= 2:
            # force two bins with the same sum and different contents: [a+b] and [a, b]
            a, b = draw(st.integers(0, 4)), draw(st.integers(1, 4))
            i, j = draw(st.integers(0, k - 1)), draw(st.integers(0, k - 1))
            if i != j:
                bins[i], bins[j] = [a + b], [a, b]
        return bins
    case = {"kind": "combos", "manager": manager, "bins1": array(), "bins2": array()}
    if manager == "contents" and draw(st.booleans()):
        case["items"] = "values"
    return case


def combos_scope(tier):
    """Both managers, k = 1..3, every bin one of [], [1], [2], [1,1], [3], [1,2] (quick: k <= 2 complete, k = 3 sliced)."""
    pool = [[], [1], [2], [1, 1], [3], [1, 2]]
    idx = 0
    for k in (1, 2, 3):
        for b1 in itertools.combinations_with_replacement(pool, k):
            for b2 in itertools.product(pool, repeat=k):
                for manager in ("sums", "contents"):
                    idx += 1
                    if k == 3 and tier == "quick" and (idx + env.seed()) % 10:
                        continue
                    case = {"kind": "combos", "manager": manager, "bins1": [list(x) for x in b1], "bins2": [list(x) for x in b2]}
                    if manager == "contents" and idx % 4 < 2:
                        case["items"] = "values"
                    yield case


# ------------------------------------------------------------------ dispatch

def evaluate(case):
    kind = case.get("kind")
    if kind == "bound":
        return evaluate_bound(case)
    if kind == "tree":
        return evaluate_tree(case)
    return evaluate_combos(case)


def valid(case):
    kind = case.get("kind")
    if kind == "bound":
        s = case.get("sums")
        return (isinstance(s, list) and len(s) >= 1 and all(isinstance(x, int) and x >= 0 for x in s) and case.get("spec") in SPECS
                and isinstance(case.get("remaining"), int) and case["remaining"] >= 0
                and sorted(case.get("shuffled", s)) == sorted(s))
    if kind == "tree":
        v = case.get("values")
        return isinstance(v, list) and 1 <= len(v) <= 12 and all(isinstance(x, int) and x >= 0 for x in v) \
            and isinstance(case.get("lo2"), int) and isinstance(case.get("hi2"), int)
    if kind == "combos":
        b1, b2 = case.get("bins1"), case.get("bins2")
        return isinstance(b1, list) and isinstance(b2, list) and len(b1) == len(b2) and 1 <= len(b1) <= 6
    return False


def shrink(case):
    kind = case["kind"]
    if kind == "bound":
        s = case["sums"]
        for i in range(len(s)):
            if len(s) > 1:
                t = s[:i] + s[i + 1:]
                yield dict(case, sums=t, shuffled=list(reversed(t)))
        for c in sorted({0, 1, case["remaining"] // 2, case["remaining"] - 1}):
            if 0 <= c < case["remaining"]:
                yield dict(case, remaining=c)
        for i, v in enumerate(s):
            for c in sorted({0, v // 2, v - 1}):
                if 0 <= c < v:
                    t = sorted(s[:i] + [c] + s[i + 1:])
                    yield dict(case, sums=t, shuffled=list(reversed(t)))
        if case.get("seq") != "list":
            yield dict(case, seq="list")
    elif kind == "tree":
        yield from runner.generic_shrink(case)
        for key in ("lo2", "hi2"):
            v = case[key]
            for c in sorted({0, v // 2, v - 1, v - 2, v + 1}):
                if c != v and abs(c) <= abs(v) + 1:
                    yield dict(case, **{key: c})
    else:
        b1, b2 = case["bins1"], case["bins2"]
        k = len(b1)
        for i in range(k):
            if k > 1:
                yield dict(case, bins1=b1[:i] + b1[i + 1:], bins2=b2[:i] + b2[i + 1:])
        for which, arr in (("bins1", b1), ("bins2", b2)):
            for i, l in enumerate(arr):
                for j in range(len(l)):
                    yield dict(case, **{which: arr[:i] + [l[:j] + l[j + 1:]] + arr[i + 1:]})
                    if l[j] > 0:
                        yield dict(case, **{which: arr[:i] + [l[:j] + [l[j] - 1] + l[j + 1:]] + arr[i + 1:]})


def legs(tier):
    return [
        Leg("corpus", evaluate, "committed instances (docstring points, inputs that exposed the repaired defect)",
            corpus=common.load_corpus(PROP), valid=valid, shards=2),
        Leg("bounds-exhaustive", evaluate,
            "every sorted k-vector over 0..5 (k<=4) x remaining total 0..7 x {min-max, max-min, difference} (thorough: k<=5, 0..6, "
            "totals 0..9): lower_bound with the sorted flag True / False / omitted and on the reversed vector must give one value, and "
            "that value must not exceed the best value reachable by adding non-negative integers with that total (water-filling "
            "oracle, validated against enumeration of all compositions); non-trivial = remaining total > 0 and the bound is finite",
            enum=bound_scope, valid=valid, shrink=shrink, exhaustive="both",
            scope="sorted k-vectors (k<=4 over 0..5 | thorough k<=5 over 0..6) x remaining 0..7|9 x 3 objectives"),
        Leg("bounds-random", evaluate,
            "hypothesis: 1-8 sums up to 10^9, remaining totals up to 10^10, incl. totals exactly at / one off the amount that levels the "
            "first j bins (the floor/ceil boundary); list / tuple / int array / float array; a generated permutation for the unsorted call; "
            "same oracle and rule", strategy=bound_cases(), n_quick=3000, n_thorough=60000, valid=valid, shrink=shrink, floor=0.5),
        Leg("tree-exhaustive", evaluate,
            "every list of <=4 (thorough <=5) values over 0..3 x every integer window [lo,hi] with ends in 0..total+1 incl. empty windows: "
            "the multiset of yielded name-sets must equal the multiset of all 2^n index subsets with lo <= sum <= hi; non-trivial = the "
            "window includes something and excludes something", enum=tree_scope, valid=valid, shrink=shrink, exhaustive="both",
            scope="value lists (<=4|5 items over 0..3) x integer windows"),
        Leg("tree-random", evaluate,
            "hypothesis: <=10 distinctly named items with values 0..9 (zeros, repeats), windows: inner, ends on achievable subset sums, "
            "wider than everything, empty, negative lower end, half-integral ends; same oracle and rule",
            strategy=tree_cases(), n_quick=3000, n_thorough=60000, valid=valid, shrink=shrink, floor=0.4),
        Leg("combos-exhaustive", evaluate,
            "both managers, 1-3 bins, every bin one of [],[1],[2],[1,1],[3],[1,2] in both arrays (quick: a tenth of the 3-bin scope): the "
            "canonical forms of the yielded arrays (sorted sums | multiset of bins as sorted name tuples) must be exactly the set of "
            "canonical forms over all k! pairings, each once; yielded sums must describe yielded contents; non-trivial = >= 2 distinct "
            "pairings and a tie in sums", enum=combos_scope, valid=valid, shrink=shrink, exhaustive=True,
            scope="2 managers x k<=3 x bins from a pool of 6"),
        Leg("combos-random", evaluate,
            "hypothesis: both managers, 1-6 bins of 0-3 items valued 0..6, half of the arrays forced to contain two bins of equal sum and "
            "different contents; same oracle and rule", strategy=combos_cases(), n_quick=3000, n_thorough=60000, valid=valid,
            shrink=shrink, floor=0.3),
    ]


def main():
    oracles.validate_oracles(("water",))
    return runner.run_check(PROP, legs(env.tier()), level="exploration", assumptions=[
        "best reachable value = water-filling of the remaining total (unit items realise every distribution); integers only",
        "objectives without a bound of their own return -inf, which is admissible",
        "items of the enumerators are distinctly named; names are strings"])
