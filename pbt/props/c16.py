"""
C16 - bins-manager operations keep sums and contents consistent, copies independent.
Model-based testing over operation histories (pbt/binmodel.py is the interpreter and the model).
"""
import itertools

from hypothesis import strategies as st

from .. import binmodel, common, env, runner, sut
from ..runner import Failure, Leg, Result

PROP = "C16"
MANAGERS = ["sums", "contents"]


def evaluate(case):
    manager, ops = case["manager"], case["ops"]
    probs, stats = binmodel.run_ops(manager, ops, case.get("items", "str"))
    labels = [f"manager={manager}", f"items={case.get('items', 'str')}"] + [f"op:{k}" for k in stats["ops"]]
    if stats["copy_then_mutate"]:
        labels.append("copy-then-mutation-of-either-side")
    if stats["sort_after_tie"]:
        labels.append("sort-with-tied-sums")
    fails = [Failure(f"{PROP}/{manager}/{reason}", {"reason": reason, "what": detail}) for reason, detail in probs[:3]]
    nontrivial = stats["copy_then_mutate"] and stats["sort_after_tie"]
    return Result(fails, labels, nontrivial, None, {"steps_run": stats["steps"], "skipped": stats["skipped"], "max_live": stats["max_live"]},
                  subcases=max(1, stats["steps"]))


sel = st.integers(0, 11)


def op_strategy():
    return st.one_of(
        st.tuples(st.just("new"), st.integers(0, 4)),
        st.tuples(st.just("add"), sel, st.integers(0, len(binmodel.ITEM_NAMES) - 1), st.integers(0, 9)),
        st.tuples(st.just("add"), sel, st.integers(0, len(binmodel.ITEM_NAMES) - 1), st.integers(0, 9)),
        st.tuples(st.just("add"), sel, st.integers(0, 3), st.integers(0, 9)),          # zero- and one-valued items: ties
        st.tuples(st.just("copy"), sel),
        st.tuples(st.just("copy"), sel),
        st.tuples(st.just("sort"), sel),
        st.tuples(st.just("sort"), sel),
        st.tuples(st.just("add_empty"), sel, st.integers(0, 3)),
        st.tuples(st.just("remove"), sel, st.integers(0, 4)),
        st.tuples(st.just("concat"), sel, sel),
        st.tuples(st.just("combine"), sel, st.integers(0, 9), sel, st.integers(0, 9)),
    ).map(list)


@st.composite
def random_cases(draw):
    manager = draw(st.sampled_from(MANAGERS))
    prefix = [["new", draw(st.integers(1, 4))]]
    ops = draw(st.lists(op_strategy(), min_size=3, max_size=40))
    return {"manager": manager, "ops": prefix + ops, "items": draw(st.sampled_from(["str", "str", "int", "tuple", "intname"]))}


ALPHABET = [
    ["new", 2], ["new", 0],
    ["add", 0, 2, 0],        # item i1a (value 1) into bin 0 of array 0
    ["add", 0, 0, 1],        # item i0a (value 0) into bin -n+1
    ["add", 1, 4, 3],        # item i2a (value 2) into array 1
    ["add", 0, 3, 1],        # item i1b (value 1)
    ["copy", 0], ["copy", 1],
    ["sort", 0], ["sort", 1],
    ["add_empty", 0, 1], ["add_empty", 0, 2], ["add_empty", 1, 0],
    ["remove", 0, 1], ["remove", 0, 0],
    ["concat", 0, 0],
    ["combine", 0, 0, 0, 1], ["combine", 1, 1, 0, 0],
]
PREFIX = [["new", 2], ["add", 0, 6, 3]]       # one array of two bins, item i3a (value 3) in its last bin


def exhaustive_cases(tier):
    """Every sequence of <= 3 (quick) / <= 4 (thorough) actions of a fixed alphabet of 18 concrete actions after a fixed
    two-step prefix, both managers."""
    depth = 4 if tier == "thorough" else 3
    idx = 0
    for manager in MANAGERS:
        for n in range(1, depth + 1):
            for seq in itertools.product(ALPHABET, repeat=n):
                idx += 1
                yield {"manager": manager, "ops": PREFIX + [list(o) for o in seq], "items": binmodel.ITEM_KINDS[idx % 4]}


def stateful_leg(n, seed, rec, tier):
    """Hypothesis rule-based state machine over the same interpreter: rules append one operation, the invariant re-runs the history
    against the model.  Native sequence shrinking; the shrunk failing history is handed to the recorder as a plain case."""
    import hypothesis
    from hypothesis import settings, HealthCheck, Phase, Verbosity
    from hypothesis.stateful import RuleBasedStateMachine, rule, invariant, initialize, run_state_machine_as_test

    found = {}

    class BinsMachine(RuleBasedStateMachine):
        def __init__(self):
            super().__init__()
            self.manager = None
            self.ops = []

        @initialize(manager=st.sampled_from(MANAGERS), n=st.integers(1, 4), items=st.sampled_from(binmodel.ITEM_KINDS))
        def start(self, manager, n, items):
            self.manager = manager
            self.items = items
            self.ops = [["new", n]]

        @rule(op=op_strategy())
        def step(self, op):
            self.ops.append(op)

        @invariant()
        def agrees_with_model(self):
            if self.manager is None:
                return
            probs, _ = binmodel.run_ops(self.manager, self.ops, self.items)
            if probs:
                found["case"] = {"manager": self.manager, "ops": [list(o) for o in self.ops], "items": self.items}
                raise AssertionError(probs[0][0])

        def teardown(self):
            if self.manager is not None and "case" not in found:
                rec.run({"manager": self.manager, "ops": [list(o) for o in self.ops], "items": self.items})

    machine = hypothesis.seed(seed)(BinsMachine)
    sett = settings(max_examples=max(1, n), stateful_step_count=30, deadline=None, database=None, derandomize=False,
                    suppress_health_check=list(HealthCheck), phases=[Phase.generate, Phase.shrink], report_multiple_bugs=False,
                    verbosity=Verbosity.quiet)
    try:
        run_state_machine_as_test(machine, settings=sett)
    except AssertionError:
        if "case" not in found:
            raise
        rec.run(found["case"])          # the last failing history Hypothesis replayed is the shrunk one


def valid(case):
    if case.get("manager") not in MANAGERS or not isinstance(case.get("ops"), list) or not case["ops"]:
        return False
    if case.get("items", "str") not in binmodel.ITEM_KINDS:
        return False
    arity = {"new": 2, "add": 4, "copy": 2, "sort": 2, "add_empty": 3, "remove": 3, "concat": 3, "combine": 5}
    for op in case["ops"]:
        if not isinstance(op, list) or not op or op[0] not in arity or len(op) != arity[op[0]]:
            return False
        if any((not isinstance(x, int)) or x < 0 for x in op[1:]):
            return False
    return True


def shrink(case):
    ops = case["ops"]
    n = len(ops)
    size = n // 2
    while size >= 1:
        for start in range(0, n, size):
            cand = ops[:start] + ops[start + size:]
            if cand and cand != ops:
                yield dict(case, ops=cand)
        size //= 2
    for i, op in enumerate(ops):
        for j in range(1, len(op)):
            for c in sorted({0, 1, op[j] // 2, op[j] - 1}):
                if 0 <= c < op[j]:
                    yield dict(case, ops=ops[:i] + [op[:j] + [c] + op[j + 1:]] + ops[i + 1:])


def legs(tier):
    rule = ("operation histories of 4-41 steps over new / add (indices -n..n-1, zero-valued items) / copy / sort / add-empty / remove / "
            "concatenate / combine on a pool of up to 6 live arrays, arrays handed to add-empty, remove and concatenate being used "
            "only through the result; after every step every live array must equal its model (number of bins, each sum, each bin's "
            "item list, numitems), the arguments of the call must be unaltered where documented so, and no two live arrays may "
            "share a sums buffer or a list object; non-trivial = the history contains a copy followed by a mutation of either "
            "side AND a sort of an array with tied sums")
    return [
        Leg("corpus", evaluate, "committed histories (README script, edge cases)", corpus=common.load_corpus(PROP), valid=valid, shards=1),
        Leg("random", evaluate, "hypothesis, generated as data: " + rule, strategy=random_cases(), n_quick=3000, n_thorough=60000,
            valid=valid, shrink=shrink, floor=0.15),
        Leg("exhaustive", evaluate,
            "every sequence of <=3 (quick) / <=4 (thorough) actions from a fixed alphabet of 18 concrete actions after a fixed prefix, both "
            "managers; same invariant and rule", enum=exhaustive_cases, valid=valid, shrink=shrink, exhaustive="both",
            scope="2 managers x sequences of <=3|4 actions over an alphabet of 18"),
        Leg("state-machine", evaluate, "hypothesis RuleBasedStateMachine (30 steps, native sequence shrinking) over the same interpreter: "
            + rule, stateful=stateful_leg, n_quick=160, n_thorough=3200, valid=valid, shrink=shrink, shards=8),
    ]


def main():
    return runner.run_check(PROP, legs(env.tier()), level="exploration", assumptions=[
        "hand-over discipline of the statement: an array passed to add_empty_bins / remove_bins / concatenate_bins is afterwards used "
        "only through the returned array; concatenate and combine are never applied to an array and itself",
        "which of several bins with equal sums comes first after sorting is not prescribed",
        "items are names with a value table, plain numbers that are their own value, (name, value) records read through a value function, or integer ids with a value table; values 0..9"])
