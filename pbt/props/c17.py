"""
C17 - ILP options (copies, weights, constraints) are honoured; sums come out ascending.
"""
from collections import Counter
from fractions import Fraction

from hypothesis import strategies as st

from .. import cases, common, env, oracles, preds, runner, strategies as S, sut
from ..runner import Failure, Leg, Result

PROP = "C17"
STATES_MAX = 70000


def copies_list(case):
    c = (case.get("opts") or {}).get("copies")
    n = len(case["values"])
    if c is None:
        return [1] * n
    if isinstance(c, int):
        return [c] * n
    return list(c)


def weights_of(case):
    return (case.get("opts") or {}).get("weights")


def expected(case):
    opts = case.get("opts") or {}
    return oracles.opt_ilp(case["values"], copies_list(case), case["numbins"], weights_of(case), opts.get("constraint"),
                           opts.get("objective", "diff"))


def check(case, p, o, want):
    """-> list of (reason, detail).  `want` = optimum in 'to minimise' form over feasible assignments, None if none exists."""
    opts = case.get("opts") or {}
    spec = opts.get("objective", "diff")
    k, values = case["numbins"], case["values"]
    tiny_limit = opts.get("time_limit") is not None
    if not o.ok:
        if want is None or tiny_limit:
            return []               # "raises an error instead of returning a partition": any error type honours the statement
        if o.exc_type == "ValueError" and o.where == "integer_programming.optimal":
            return [("refused-a-feasible-request", o.describe())]
        return [(f"exception:{o.exc_type}@{o.where}", o.describe())]
    if want is None:
        return [("answered-an-infeasible-request", {"returned": sut.jsonable(o.value)})]
    sums, bins = o.value
    if len(bins) != k or len(sums) != k:
        return [("wrong-number-of-bins", f"{len(bins)} for numbins={k}")]
    cp = copies_list(case)
    want_count = Counter({nm: c for nm, c in zip(p.names, cp) if c})
    if p.value_of_name is None:            # plain list: names are the values; equal values merge
        want_count = Counter()
        for v, c in zip(values, cp):
            if c:
                want_count[v] += c
    got_count = Counter(x for b in bins for x in b)
    if got_count != want_count:
        return [("item-not-placed-as-many-times-as-its-copies", {"placed": {str(a): b for a, b in got_count.items()},
                                                                "requested": {str(a): b for a, b in want_count.items()}})]
    real = preds.bin_sums(p, bins)
    if list(real) != list(sums):
        return [("sums-do-not-describe-bins", {"reported": sut.jsonable(sums), "actual": sut.jsonable(real)})]
    w = weights_of(case) or [1] * k
    uniform = len(set(w)) == 1
    probs = []
    if uniform and any(real[i] > real[i + 1] for i in range(k - 1)):
        probs.append(("sums-not-in-non-decreasing-order", {"sums": sut.jsonable(real)}))
    ns = [Fraction(real[i], w[i]) for i in range(k)]       # the i-th bin is the one whose sum was divided by the i-th weight
    if not oracles.check_constraint(opts.get("constraint"), list(real)):
        probs.append(("additional-constraint-violated", {"constraint": opts.get("constraint"), "sums": sut.jsonable(real), "weights": w}))
    got = oracles.to_minimize(spec, ns)
    if got != want:
        probs.append(("not-optimal-among-feasible" if got > want else "better-than-the-oracle-optimum",
                      {"objective": spec, "weighted_sums_by_bin_index": [str(x) for x in ns], "sums": sut.jsonable(real), "weights": w,
                       "value": str(got), "optimum": str(want)}))
    if uniform and weights_of(case) is not None:
        plain = oracles.opt_ilp(values, cp, k, None, opts.get("constraint"), spec)       # equal weights never change the result
        if oracles.to_minimize(spec, real) != plain:
            probs.append(("equal-weights-changed-the-result", {"sums": sut.jsonable(real), "weights": w, "plain_optimum": str(plain)}))
    return probs


def evaluate(case):
    opts = case.get("opts") or {}
    labels = [f"obj={opts.get('objective', 'diff').split(':')[0]}", f"k={case['numbins']}", f"pres={case.get('pres', 'list')}"]
    labels += [f"copies={'scalar' if isinstance(opts.get('copies'), int) else 'per-item' if opts.get('copies') else 'default'}",
               f"weights={'none' if not opts.get('weights') else 'equal' if len(set(opts['weights'])) == 1 else 'non-uniform'}",
               f"constraint={opts['constraint'][0] if opts.get('constraint') else 'none'}"]
    want = expected(case)
    if want is None:
        labels.append("infeasible")
    p, o = sut.run_case(case, "PartitionAndSumsTuple")
    probs = check(case, p, o, want)
    inconclusive = None
    runs = 1
    if probs:
        with sut.ilp_preprocess_off():
            p2, o2 = sut.run_case(case, "PartitionAndSumsTuple")
        runs += 1
        if not check(case, p2, o2, want):
            inconclusive, probs = "solver-inconsistency", []
    fails = [Failure(f"{PROP}/ilp/{r}", {"reason": r, "what": d}) for r, d in probs]
    nondefault = any(opts.get(x) is not None for x in ("copies", "weights", "constraint"))
    plain = oracles.opt_ilp(case["values"], [1] * len(case["values"]), case["numbins"], None, None, opts.get("objective", "diff"))
    nontrivial = nondefault and want != plain
    if opts.get("time_limit") is not None:
        labels.append("tiny-time-limit:" + ("refused" if not o.ok else "answered"))
    return Result(fails, labels, nontrivial, inconclusive, o.describe(), subcases=runs)


def states(k, total_copies):
    return k ** total_copies


@st.composite
def ilp_cases(draw):
    k = draw(st.sampled_from([1, 2, 2, 2, 3, 3, 3, 4]))
    budget = {1: 8, 2: 12, 3: 9, 4: 7}[k]                    # keeps the enumeration oracle at <= ~70,000 assignments
    n = draw(st.integers(1, min(6, budget)))
    style = draw(st.sampled_from(["tiny", "small", "medium", "ties", "docstring"]))
    if style == "tiny":
        values = draw(st.lists(st.integers(0, 6), min_size=n, max_size=n))
    elif style == "small":
        values = draw(st.lists(st.integers(1, 30), min_size=n, max_size=n))
    elif style == "medium":
        values = S.splitmix(draw(st.integers(0, 2 ** 40)), n, 1, 200)
    elif style == "ties":
        pool = draw(st.lists(st.integers(1, 25), min_size=1, max_size=2))
        values = draw(st.lists(st.sampled_from(pool), min_size=n, max_size=n))
    else:
        values = draw(st.sampled_from([[11, 11, 11, 11, 22], [18, 12, 22, 22], [46, 39, 27, 26, 16, 13], [4, 4], [1, 2, 3, 3, 5, 9]]))[:min(6, budget)]
        n = len(values)
    opts = {"objective": draw(S.objective_specs(k))}
    ckind = draw(st.sampled_from(["default", "default", "scalar1", "scalar2", "per-item", "per-item", "per-item-zero-first"]))
    if ckind == "scalar1":
        opts["copies"] = 1
    elif ckind == "scalar2" and 2 * n <= budget:
        opts["copies"] = 2
    elif ckind.startswith("per-item"):
        cp = draw(st.lists(st.sampled_from([0, 1, 1, 1, 2]), min_size=n, max_size=n))
        if ckind == "per-item-zero-first" and n >= 2:
            cp[0], cp[1] = 0, 2
        while sum(cp) > budget:
            cp[cp.index(max(cp))] -= 1
        opts["copies"] = cp
    wkind = draw(st.sampled_from(["none", "none", "equal-1", "equal", "ints", "ints"]))
    if wkind == "equal-1":
        opts["weights"] = [1] * k
    elif wkind == "equal":
        opts["weights"] = [draw(st.sampled_from([2, 3, 5, 10]))] * k
    elif wkind == "ints":
        opts["weights"] = draw(st.lists(st.integers(1, 10), min_size=k, max_size=k))
    case = {"alg": "ilp", "values": values, "numbins": k, "pres": draw(st.sampled_from(["list", "list", "dict-str", "dict-int", "names-array"])),
            "nseed": draw(st.integers(0, 5)), "opts": opts}
    if draw(st.integers(0, 2)) > 0:
        # a constraint whose constant is taken from the attainable values (+-1), so feasible and infeasible are both common
        cp = copies_list(case)
        w = opts.get("weights") or [1] * k
        vecs = oracles.ordered_sum_vectors(values, cp, k)
        ns_all = [sorted(Fraction(a, b) for a, b in zip(s, w)) for s in vecs]
        kind = draw(st.sampled_from(["min==", "max<=", "min>="]))
        attain = sorted({(v[0] if kind != "max<=" else v[-1]) for v in ns_all})
        ints = sorted({int(x) for x in attain} | {int(x) + 1 for x in attain})
        c = draw(st.sampled_from(ints)) + draw(st.sampled_from([0, 0, 0, -1, 1]))
        opts["constraint"] = [kind, c]
    if draw(st.integers(0, 11)) == 0:
        opts["time_limit"] = draw(st.sampled_from([1e-9, 1e-6, 1e-3]))
    return case


def valid(case):
    v, k = case.get("values"), case.get("numbins")
    if not isinstance(v, list) or not v or any((not isinstance(x, int)) or x < 0 or x > 200 for x in v):
        return False
    if not isinstance(k, int) or not (1 <= k <= 4):
        return False
    opts = case.get("opts") or {}
    cp = opts.get("copies")
    if isinstance(cp, list) and (len(cp) != len(v) or any(c not in (0, 1, 2) for c in cp)):
        return False
    if isinstance(cp, int) and cp not in (1, 2):
        return False
    w = opts.get("weights")
    if w is not None and (len(w) != k or any((not isinstance(x, int)) or x < 1 for x in w)):
        return False
    return states(k, sum(copies_list(case))) <= STATES_MAX


def shrink(case):
    opts = case.get("opts") or {}
    v = case["values"]
    for i in range(len(v)):
        if len(v) > 1:
            o2 = dict(opts)
            if isinstance(opts.get("copies"), list):
                o2["copies"] = opts["copies"][:i] + opts["copies"][i + 1:]
            yield dict(case, values=v[:i] + v[i + 1:], opts=o2)
    for key in ("constraint", "weights", "copies", "time_limit"):
        if opts.get(key) is not None:
            o2 = dict(opts)
            del o2[key]
            yield dict(case, opts=o2)
    if case["numbins"] > 1 and opts.get("weights") is None:
        yield dict(case, numbins=case["numbins"] - 1)
    if opts.get("objective") not in ("diff", "minmax", "maxmin"):
        yield dict(case, opts=dict(opts, objective="minmax"))
    for i, x in enumerate(v):
        for c in sorted({0, 1, x // 2, x - 1}):
            if 0 <= c < x:
                yield dict(case, values=v[:i] + [c] + v[i + 1:])
    if case.get("pres") != "list":
        yield dict(case, pres="list")


def legs(tier):
    return [
        Leg("corpus", evaluate, "committed instances (docstring examples, the weights example of the pinned tree)",
            corpus=common.load_corpus(PROP), valid=valid, shards=2),
        Leg("random", evaluate,
            "hypothesis: <=6 items with values <=200, 1-4 bins, one of 5 objectives, copies (default | 1 | 2 | per item 0/1/2), weights "
            "(none | all 1 | all equal | positive ints), a constraint smallest==c | largest<=c | smallest>=c with c drawn from the "
            "attainable values +-1 (feasible and infeasible), occasionally a tiny time limit; oracle = explicit enumeration of all "
            "assignments of the copy-expanded multiset filtered by the constraint and by weight-normalised sums non-decreasing in bin "
            "index: each name placed exactly `copies` times, sums describe bins, raw sums non-decreasing (no / equal weights), "
            "constraint holds, objective on (sum_i / weight_i) equals the optimum, equal weights leave the plain optimum, infeasible => "
            "ValueError and nothing returned, tiny limit => ValueError or an optimal answer; non-trivial = an option is non-default AND "
            "the optimum differs from the plain call's",
            strategy=ilp_cases(), n_quick=6000, n_thorough=60000, valid=valid, shrink=shrink, floor=0.2, case_timeout=120),
    ]


def main():
    oracles.validate_oracles(("ilp", "partition"))
    return runner.run_check(PROP, legs(env.tier()), level="exploration", assumptions=[
        "with non-uniform weights the optimum is taken over assignments whose weight-normalised sums are non-decreasing in bin index "
        "(the documented interface: additional_constraints receives 'the list of sums in ascending order'; DESIGN.md 7.3)",
        "an answer that fails and passes when re-solved with CBC preprocessing off is a solver inconsistency (inconclusive)",
        "values <= 200, <= 6 items, total number of copies bounded so that the enumeration oracle stays below 70,000 assignments"])
