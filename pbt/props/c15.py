"""
C15 - calls are pure: inputs untouched, results repeatable, no state across calls.
"""
import json
import os
import subprocess
import sys

from hypothesis import strategies as st

from .. import cases, common, env, runner, strategies as S, sut
from ..runner import Failure, Leg, Result

PROP = "C15"

# ------------------------------------------------------------------ (i) arguments untouched, (ii) repeatable


def do_call(case, presented):
    ot = case.get("outputtype", "Partition")
    if case.get("ticks") is not None:
        return sut.call_with_ticks(case["alg"], sut.case_param(case), presented, ot, case.get("opts"), case["ticks"])
    return sut.call(case["alg"], sut.case_param(case), presented, ot, case.get("opts"))


def evaluate_single(case):
    alg = case["alg"]
    labels = [f"alg={alg}", f"pres={case.get('pres', 'list')}", f"out={case.get('outputtype', 'Partition')}"]
    ot = case.get("outputtype", "Partition")
    p = sut.present(case["values"], case.get("pres", "list"), case.get("nseed", 0), case.get("den", 1))
    before = sut.snapshot(p)
    o1 = do_call(case, p)
    after = sut.snapshot(p)
    fails = []
    if after != before:
        fails.append(Failure(f"{PROP}/{alg}/argument-modified", {"before": repr(before)[:300], "after": repr(after)[:300],
                                                                 "call_raised": not o1.ok}))
    o2 = do_call(case, p)
    if sut.snapshot(p) != before and after == before:
        fails.append(Failure(f"{PROP}/{alg}/argument-modified-by-the-second-call", {}))
    p3 = sut.present(case["values"], case.get("pres", "list"), case.get("nseed", 0), case.get("den", 1))
    o3 = do_call(case, p3)
    inconclusive = None
    if o1.describe() != o2.describe() or o1.describe() != o3.describe():
        if alg == "ilp":
            with sut.ilp_preprocess_off():
                a = sut.call(alg, sut.case_param(case), p3, ot, case.get("opts")).describe()
                b = sut.call(alg, sut.case_param(case), p3, ot, case.get("opts")).describe()
            if a == b:
                inconclusive = "solver-inconsistency"
        if inconclusive is None:
            fails.append(Failure(f"{PROP}/{alg}/same-call-different-result",
                                 {"first": o1.describe(), "second_same_object": o2.describe(), "third_fresh_object": o3.describe()}))
    if not o1.ok:
        labels.append("call-raised")
    if case.get("ticks") is not None:
        labels.append("time-limited-under-counting-clock")
    nontrivial = len(case["values"]) >= 2 and (case.get("pres", "list") != "list" or not o1.ok or len(set(case["values"])) < len(case["values"]))
    return Result(fails, labels, nontrivial, inconclusive, o1.describe(), subcases=3)


@st.composite
def single_cases(draw):
    kind = draw(st.sampled_from(["partition", "partition", "pack", "pack", "cover", "oversize", "cbldm-invalid"]))
    pres = ["list", "list", "array", "array", "dict-str", "dict-int", "names", "names-array", "dict-mixed"]
    if kind == "partition":
        case = draw(cases.partition_cases(presentations=pres, max_len=12))
    elif kind == "pack":
        case = draw(cases.packing_cases(presentations=pres))
    elif kind == "cover":
        case = draw(cases.covering_cases(presentations=pres))
    elif kind == "oversize":
        case = draw(cases.packing_cases(presentations=pres, max_len=8))
        pos = draw(st.integers(0, len(case["values"])))
        case["values"] = case["values"][:pos] + [case["binsize"] + draw(st.integers(1, 5))] + case["values"][pos:]
        case["invalid"] = True
    else:
        case = draw(cases.partition_cases(algs=["cbldm"], presentations=pres))
        case["numbins"] = draw(st.sampled_from([1, 3]))
        case["invalid"] = True
    case["outputtype"] = draw(st.sampled_from(["Partition", "Partition", "PartitionAndSumsTuple", "Sums", "SortedSums", "BinCount"]))
    if case["alg"] in sut.ANYTIME_MODULES and not case.get("invalid") and draw(st.integers(0, 1)) == 0:
        case["ticks"] = draw(st.integers(1, 40))          # a time limit, in readings of a counting clock
    return case


@st.composite
def large_single_cases(draw):
    case = draw(cases.large_heuristic_cases(["list", "array", "array", "dict-str", "dict-int", "names", "names-array"]))
    case["outputtype"] = draw(st.sampled_from(["Partition", "Partition", "PartitionAndSumsTuple", "Sums", "BinCount"]))
    case["large"] = True
    return case


def valid_single(case):
    alg = case.get("alg")
    if case.get("ticks") is not None and not (alg in sut.ANYTIME_MODULES and isinstance(case["ticks"], int) and 1 <= case["ticks"] <= 10 ** 6):
        return False
    if case.get("large"):
        return cases.valid_large_case(case)
    if case.get("invalid"):
        return alg in sut.ALL_ALGS and isinstance(case.get("values"), list) and len(case["values"]) >= 1
    if alg in sut.PARTITIONERS:
        return cases.valid_partition_case(case)
    if alg in sut.PACKERS:
        return cases.valid_packing_case(case) and (alg != "bc" or len(case["values"]) <= 12)
    return alg in sut.COVERERS and cases.valid_covering_case(case)


# ------------------------------------------------------------------ (iii) history independence

_SERVER = None


def server():
    global _SERVER
    if _SERVER is not None and _SERVER.poll() is None:
        return _SERVER
    envv = dict(os.environ, PYTHONHASHSEED="0", VERIF_REPO=env.REPO)
    proc = subprocess.Popen([sys.executable, "-m", "pbt.fresh_server"], cwd=env.VERIF_DIR, env=envv, stdin=subprocess.PIPE,
                            stdout=subprocess.PIPE, stderr=subprocess.DEVNULL, text=True, bufsize=1)
    hello = proc.stdout.readline()
    try:
        info = json.loads(hello)
    except ValueError:
        raise env.HarnessError(f"fresh server did not start: {hello!r}")
    if not os.path.abspath(info.get("prtpy", "")).startswith(env.REPO + os.sep):
        raise env.HarnessError(f"fresh server imported prtpy from {info.get('prtpy')}, not from {env.REPO}")
    _SERVER = proc
    return proc


def ask_server(req):
    proc = server()
    proc.stdin.write(json.dumps(req) + "\n")
    proc.stdin.flush()
    line = proc.stdout.readline()
    if not line:
        raise env.HarnessError("fresh server died")
    return json.loads(line)


def strip(d):
    return {k: v for k, v in d.items() if k != "args_untouched"}


def evaluate_history(case):
    calls = case["calls"]
    labels = [f"calls={len(calls)}"] + sorted({f"alg={c['alg']}" for c in calls if "alg" in c})
    if any("mutate" in c for c in calls):
        labels.append("caller-changes-an-input-between-calls")
    if any(c.get("ticks") is not None for c in calls):
        labels.append("time-limited-call-under-counting-clock")
    real_calls = [c for c in calls if "alg" in c]
    resp = ask_server({"inputs": case["inputs"], "calls": calls})
    if "server_error" in resp:
        raise env.HarnessError(f"fresh server: {resp['server_error']}")
    hist, refs = resp["history"], resp["references"]
    if isinstance(hist, dict) and "child_error" in hist:
        return Result([], labels, False, "timeout" if hist["child_error"] == "timeout" else "history-child-failed:" + hist["child_error"][:40],
                      {"error": hist["child_error"]}, subcases=len(calls) + 1)
    fails, inconclusive = [], None
    raised = 0
    for i, c in enumerate(calls):
        ref = refs[i]
        if "mutate" in c:
            continue
        if "child_error" in ref:
            inconclusive = "timeout" if ref["child_error"] == "timeout" else "reference-child-failed"
            continue
        if "raised" in ref:
            raised += 1
        alg = c["alg"]
        if not ref.get("args_untouched", True):
            fails.append(Failure(f"{PROP}/{alg}/argument-modified", {"call_index": i, "call": c, "input": case["inputs"][c["input"]]}))
        elif not hist[i].get("args_untouched", True):
            fails.append(Failure(f"{PROP}/{alg}/argument-modified-only-in-history", {"call_index": i, "call": c}))
        if strip(hist[i]) != strip(ref):
            fails.append(Failure(f"{PROP}/{alg}/result-depends-on-call-history",
                                 {"call_index": i, "call": c, "in_history": strip(hist[i]), "in_fresh_process": strip(ref),
                                  "earlier_calls": [(f"{x['alg']}@input{x['input']}" if "alg" in x else f"caller sets input{x['mutate']}[{x['index']}]={x['value']}")
                                                    for x in calls[:i]]}))
    algs = {c["alg"] for c in real_calls}
    keys = [json.dumps(c, sort_keys=True) for c in real_calls]
    repeated = len(set(keys)) < len(keys)
    if repeated:
        labels.append("has-repeated-call")
    if raised:
        labels.append("has-failed-call")
    shared = len({c["input"] for c in real_calls}) < len(real_calls)
    if shared:
        labels.append("input-object-shared-between-calls")
    by_alg = {}
    for c, k in zip(real_calls, keys):
        by_alg.setdefault(c["alg"], set()).add(k)
    related = any(len(v) >= 2 for v in by_alg.values())          # one algorithm called in two different ways
    if related:
        labels.append("has-related-calls(same-algorithm-different-call)")
    if len(algs) >= 3 and repeated and raised >= 1:
        labels.append("3-algorithms+repeat+refusal")
    nontrivial = (len(algs) >= 2 or bool(case.get("sweep"))) and related and (repeated or raised >= 1 or shared)
    return Result(fails, labels, nontrivial, inconclusive, {"results_in_history": [strip(h) for h in hist][:4]}, subcases=len(calls) + 1)


SMALL_EXACT = {"cg": 7, "ckk": 7, "snp": 7, "rnp": 7, "dp": 6, "ilp": 6, "cbldm": 8, "bc": 8}


def random_values(draw, n):
    style = draw(st.sampled_from(["small", "small", "ties", "with-zero", "positive", "spread"]))
    if style == "ties":
        pool = draw(st.lists(st.integers(1, 9), min_size=1, max_size=2))
        return draw(st.lists(st.sampled_from(pool), min_size=n, max_size=n))
    if style == "with-zero":
        return draw(st.lists(st.integers(0, 12), min_size=max(1, n - 1), max_size=max(1, n - 1))) + [0]
    if style == "positive":
        return draw(st.lists(st.integers(1, 30), min_size=n, max_size=n))
    if style == "spread":
        return S.splitmix(draw(st.integers(0, 2 ** 40)), n, 1, 60)
    return draw(st.lists(st.integers(0, 30), min_size=n, max_size=n))


def fresh_call(draw, inputs, j, alg):
    values = inputs[j]["values"]
    call = {"alg": alg, "input": j, "outputtype": draw(st.sampled_from(["Partition", "PartitionAndSumsTuple", "Sums", "SortedSums"]))}
    if alg in sut.PARTITIONERS:
        k = 2 if alg == "cbldm" else draw(st.integers(2, 3 if alg in ("dp", "ilp") else 4))
        if alg == "cbldm" and draw(st.integers(0, 5)) == 0:
            k = 3                                                                   # a refused call
        call["param"] = k
        opts = {}
        if alg == "cg":
            opts = {"objective": draw(st.sampled_from(S.CG_OBJECTIVES)), "switches": draw(st.sampled_from([[1, 1, 0, 1], [1, 1, 0, 1], [0, 0, 0, 0],
                                                                                                         [1, 1, 1, 1], [1, 0, 0, 0]]))}
            style = draw(st.integers(0, 3))
            if style == 0:
                del opts["switches"]             # the library's default switches (a call that passes none of them)
            elif style == 1:
                opts = {}                        # all defaults: default objective, default switches
        elif alg in ("dp", "ilp"):
            opts = {"objective": draw(S.objective_specs(k))}
        elif alg == "cbldm" and draw(st.booleans()):
            opts = {"partition_difference": draw(st.integers(1, 3))}
        if opts:
            call["opts"] = opts
        if alg in sut.ANYTIME_MODULES and (alg == "cg" or k == 2) and draw(st.integers(0, 2)) == 0:
            call["ticks"] = draw(st.integers(1, 40))      # a time limit, in readings of a counting clock that starts at 0 for the call
    else:
        top = max(values)
        if alg in sut.PACKERS and draw(st.integers(0, 3)) == 0 and top >= 2:
            call["param"] = draw(st.integers(1, top - 1))                           # an oversize item: a refused call
        else:
            call["param"] = max(1, top) + draw(st.integers(0, 20))
    return call


@st.composite
def history_cases(draw):
    """Histories in which calls and inputs are RELATED to earlier ones (same algorithm with another number of bins / bin size /
    objective; the same names with other values; the same values permuted; the same total), because state that leaks between
    calls - a cache with an incomplete key, an accumulator that is not reset - shows only between related calls."""
    n_inputs = draw(st.integers(1, 3))
    inputs = []
    for _ in range(n_inputs):
        if inputs and draw(st.integers(0, 1)) == 0:
            base = inputs[draw(st.integers(0, len(inputs) - 1))]
            v = list(base["values"])
            how = draw(st.sampled_from(["same-names-other-values", "same-names-other-values", "permuted", "same-total", "equal-copy"]))
            if how == "same-names-other-values":
                v = random_values(draw, len(v))[:len(v)]
                v = v + [1] * (len(base["values"]) - len(v))
            elif how == "permuted":
                v = list(draw(st.permutations(v)))
            elif how == "same-total" and len(v) >= 2:
                i, j2 = draw(st.integers(0, len(v) - 1)), draw(st.integers(0, len(v) - 1))
                d = draw(st.integers(0, v[i]))
                if i != j2:
                    v[i] -= d
                    v[j2] += d
            inputs.append({"values": v, "pres": base["pres"], "nseed": base["nseed"]})
            continue
        n = draw(st.integers(2, 7))
        inputs.append({"values": random_values(draw, n), "pres": draw(st.sampled_from(["list", "list", "array", "dict-str", "dict-int", "names", "names-array"])),
                       "nseed": draw(st.integers(0, 5))})
    calls = []
    ncalls = draw(st.integers(3, 9))
    algs = cases.ALL_PARTITIONERS + cases.PACKERS + cases.COVERERS
    for _ in range(ncalls):
        mode = draw(st.sampled_from(["fresh", "fresh", "repeat", "other-param", "other-param", "other-input", "other-opts"])) if calls else "fresh"
        if mode == "fresh":
            calls.append(fresh_call(draw, inputs, draw(st.integers(0, n_inputs - 1)), draw(st.sampled_from(algs))))
            continue
        prev = calls[draw(st.integers(0, len(calls) - 1))]
        if mode == "repeat":
            calls.append(dict(prev))
        elif mode == "other-param":
            c = dict(prev)
            if c["alg"] in sut.PARTITIONERS and c["alg"] != "cbldm":
                c["param"] = {2: 3, 3: draw(st.sampled_from([2, 4])), 4: 3}.get(c["param"], 2)
                if c["alg"] in ("dp", "ilp"):
                    c["param"] = min(c["param"], 3)
            elif c["alg"] not in sut.PARTITIONERS:
                c["param"] = max(1, c["param"] + draw(st.sampled_from([-3, -1, 1, 2, 7])))
            calls.append(c)
        elif mode == "other-input":
            c = fresh_call(draw, inputs, draw(st.integers(0, n_inputs - 1)), prev["alg"])
            if prev["alg"] in sut.PARTITIONERS:
                c["param"] = prev["param"]
                if "opts" in prev:
                    c["opts"] = prev["opts"]
            calls.append(c)
        else:
            c = fresh_call(draw, inputs, prev["input"], prev["alg"])
            c["param"] = prev["param"]
            calls.append(c)
    # a call that FAILS after it has started working (complete greedy stopped by its limit before its first solution, a refused
    # request), directly followed by a call on another input with the same names and other values (one history in four)
    if draw(st.integers(0, 3)) == 0:
        j = draw(st.integers(0, len(inputs) - 1))
        base = inputs[j]
        other = {"values": random_values(draw, len(base["values"]))[:len(base["values"])], "pres": base["pres"], "nseed": base["nseed"]}
        other["values"] += [1] * (len(base["values"]) - len(other["values"]))
        inputs.append(other)
        kind = draw(st.sampled_from(["cg-stopped", "cg-stopped", "cbldm-refused", "oversize"]))
        if kind == "cg-stopped":
            failing = {"alg": "cg", "input": j, "outputtype": "Partition", "param": draw(st.integers(2, 3)), "ticks": draw(st.integers(1, 2))}
        elif kind == "cbldm-refused":
            failing = {"alg": "cbldm", "input": j, "outputtype": "Partition", "param": 3}
        else:
            failing = {"alg": draw(st.sampled_from(cases.PACKERS)), "input": j, "outputtype": "Partition", "param": max(1, max(base["values"]) - 1)}
        calls.append(failing)
        calls.append(fresh_call(draw, inputs, len(inputs) - 1, draw(st.sampled_from(algs))))
    # the caller changes a value of an input object between two calls (one history in three)
    if draw(st.integers(0, 2)) == 0:
        cands = [j for j, s_ in enumerate(inputs) if s_["pres"] in MUTABLE_PRES and any(c["input"] == j for c in calls)]
        if cands:
            j = draw(st.sampled_from(cands))
            pos = draw(st.integers(1, len(calls) - 1)) if len(calls) > 1 else 1
            step = {"mutate": j, "index": draw(st.integers(0, len(inputs[j]["values"]) - 1)), "value": draw(st.integers(1, 30))}
            calls = calls[:pos] + [step] + calls[pos:]
            later = [c for c in calls[pos + 1:] if c.get("input") == j]
            if not later:                      # make sure the changed input is used again
                earlier = [c for c in calls[:pos] if c.get("input") == j]
                calls.append(dict(earlier[-1]))
    return {"kind": "history", "inputs": inputs, "calls": calls}


@st.composite
def sweep_cases(draw):
    """One algorithm, one input object, a sweep over its parameter (number of bins / bin size) up and down again: what a cache keyed by
    the items but not by the parameter, or an accumulator sized by the first call, gets wrong.  Bin completion gets planted inputs of
    7-10 items on which its search really runs."""
    alg = draw(st.sampled_from(["bc", "bc", "bc", "ffd", "bfd", "bf", "cg", "cg", "cg", "ckk", "snp", "rnp", "dp", "multifit", "kk", "greedy",
                                "threequarters", "twothirds", "decreasing", "cbldm"]))
    pres = draw(st.sampled_from(["list", "list", "array", "dict-str", "names"]))
    if alg == "bc":
        C = draw(st.sampled_from([12, 20, 30, 50]))
        _, values, _ = draw(S.hard_packing(C, max_bins=3, max_len=10))
        top = max(values)
        params = [C + draw(st.integers(0, 6)), C, max(top, C - draw(st.integers(1, 4))), max(top, C - draw(st.integers(2, 8))), C]
    elif alg in sut.PACKERS or alg in sut.COVERERS:
        values = S.splitmix(draw(st.integers(0, 2 ** 40)), draw(st.integers(5, 12)), 1, 30)
        top = max(values)
        params = [top + d for d in draw(st.lists(st.integers(0, 25), min_size=3, max_size=5))]
    else:
        n = draw(st.integers(5, 7 if alg in ("dp",) else 8))
        values = S.splitmix(draw(st.integers(0, 2 ** 40)), n, 0 if draw(st.booleans()) else 1, 40)
        params = [2, 2, 2] if alg == "cbldm" else draw(st.lists(st.integers(2, 3 if alg == "dp" else 4), min_size=3, max_size=5))
    calls = []
    for prm in params:
        c = {"alg": alg, "input": 0, "param": prm, "outputtype": draw(st.sampled_from(["Partition", "Partition", "Sums"]))}
        if alg == "cg":
            c["opts"] = {"objective": draw(st.sampled_from(S.CG_OBJECTIVES))}
        elif alg == "dp":
            c["opts"] = {"objective": draw(S.objective_specs(prm))}
        elif alg == "cbldm" and draw(st.booleans()):
            c["opts"] = {"partition_difference": draw(st.integers(1, 3))}
        calls.append(c)
    if alg in ("cg", "multifit", "cbldm", "dp") and draw(st.integers(0, 2)) == 0:
        # an OPTIONS sweep instead: the parameter stays, explicit options alternate with the library's defaults - what options that leak
        # into the defaults of later calls get wrong; complete greedy partly under a (deterministic) time limit, where the search order shows
        for i, c in enumerate(calls):
            c["param"] = calls[0]["param"]
            c.pop("opts", None)
            if i % 2 == 0:
                if alg == "cg":
                    c["opts"] = {"objective": draw(st.sampled_from(S.CG_OBJECTIVES)),
                                 "switches": draw(st.sampled_from([[0, 0, 0, 0], [1, 0, 0, 0], [0, 0, 0, 1], [1, 1, 1, 1], [1, 0, 1, 0]]))}
                elif alg == "multifit":
                    c["opts"] = {"iterations": draw(st.sampled_from([0, 1, 2, 3]))}
                elif alg == "cbldm":
                    c["opts"] = {"partition_difference": draw(st.integers(1, 2))}
                else:
                    c["opts"] = {"objective": draw(S.objective_specs(c["param"]))}
            elif alg == "cg" and draw(st.integers(0, 2)) > 0:
                c["opts"] = {"objective": calls[i - 1]["opts"]["objective"]}       # the same objective, none of the switches passed
            if alg == "cg" and draw(st.integers(0, 2)) == 0:
                c["ticks"] = draw(st.integers(3, 60))
    inputs = [{"values": values, "pres": pres, "nseed": draw(st.integers(0, 5))}]
    if draw(st.integers(0, 3)) == 0 and len(values) >= 3:
        # a PERMUTED-INPUT sweep instead: the same call on the input and on a rearrangement of it, alternately - what a memo keyed by the
        # multiset of values (and not by their order or their names) gets wrong
        inputs.append(dict(inputs[0], values=list(draw(st.permutations(values)))))
        for i, c in enumerate(calls):
            c["param"] = calls[0]["param"]
            if "opts" in calls[0]:
                c["opts"] = calls[0]["opts"]
            else:
                c.pop("opts", None)
            c.pop("ticks", None)
            c["input"] = i % 2
    return {"kind": "history", "sweep": True, "inputs": inputs, "calls": calls}


MUTABLE_PRES = ("list", "array", "dict-str", "names")       # presentations whose item names do not depend on the values


def valid_history(case):
    ins, calls = case.get("inputs"), case.get("calls")
    if not isinstance(ins, list) or not isinstance(calls, list) or not calls or not ins:
        return False
    for s in ins:
        v = s.get("values")
        if not isinstance(v, list) or not (1 <= len(v) <= 12) or any((not isinstance(x, int)) or x < 0 for x in v):
            return False
    if not any("alg" in c for c in calls):
        return False
    for c in calls:
        if "mutate" in c:
            j = c["mutate"]
            if not (isinstance(j, int) and 0 <= j < len(ins) and isinstance(c.get("index"), int) and 0 <= c["index"] < len(ins[j]["values"])
                    and isinstance(c.get("value"), int) and c["value"] >= 1 and ins[j].get("pres") in MUTABLE_PRES):
                return False
            continue
        if c.get("alg") not in sut.ALL_ALGS or not isinstance(c.get("input"), int) or not (0 <= c["input"] < len(ins)):
            return False
        if c.get("ticks") is not None and not (c["alg"] in sut.ANYTIME_MODULES and isinstance(c["ticks"], int) and 1 <= c["ticks"] <= 10 ** 6):
            return False
        if not isinstance(c.get("param"), int) or c["param"] < 1:
            return False
        v = ins[c["input"]]["values"]
        if c["alg"] in sut.COVERERS and min(v) < 1:
            return False
        if c["alg"] in sut.PARTITIONERS and c["alg"] != "cbldm" and c["param"] > 4:
            return False
    return True


def fix_history(case):
    """Covering needs positive items: point such calls at a positive input or turn them into round-robin."""
    ins = case["inputs"]
    positive = [j for j, s in enumerate(ins) if min(s["values"]) >= 1]
    for c in case["calls"]:
        if "mutate" in c:
            continue
        if c["alg"] in sut.COVERERS and min(ins[c["input"]]["values"]) < 1:
            if positive:
                c["input"] = positive[0]
                c["param"] = max(c["param"], 1)
            else:
                c["alg"], c["param"] = "roundrobin", 2
                c.pop("opts", None)
    return case


def shrink_history(case):
    calls, ins = case["calls"], case["inputs"]
    n = len(calls)
    size = n // 2
    while size >= 1:
        for start in range(0, n, size):
            cand = calls[:start] + calls[start + size:]
            if cand and cand != calls:
                yield dict(case, calls=cand)
        size //= 2
    used = sorted({c["input"] for c in calls if "alg" in c} | {c["mutate"] for c in calls if "mutate" in c})
    if len(used) < len(ins):
        remap = {old: new for new, old in enumerate(used)}
        yield dict(case, inputs=[ins[j] for j in used],
                   calls=[(dict(c, input=remap[c["input"]]) if "alg" in c else dict(c, mutate=remap[c["mutate"]])) for c in calls])
    for j, s in enumerate(ins):
        v = s["values"]
        for i in range(len(v)):
            if len(v) > 1:
                yield dict(case, inputs=ins[:j] + [dict(s, values=v[:i] + v[i + 1:])] + ins[j + 1:])
        if s.get("pres") != "list":
            yield dict(case, inputs=ins[:j] + [dict(s, pres="list")] + ins[j + 1:])
    for i, c in enumerate(calls):
        if "mutate" in c:
            continue
        if c.get("outputtype") != "Partition":
            yield dict(case, calls=calls[:i] + [dict(c, outputtype="Partition")] + calls[i + 1:])


def evaluate(case):
    if case.get("kind") == "history":
        return evaluate_history(case)
    return evaluate_single(case)


def valid(case):
    return valid_history(case) if case.get("kind") == "history" else valid_single(case)


def shrink(case):
    if case.get("kind") == "history":
        yield from shrink_history(case)
    else:
        yield from runner.generic_shrink(case)


def legs(tier):
    return [
        Leg("corpus", evaluate, "committed instances", corpus=common.load_corpus(PROP), valid=valid, shards=2),
        Leg("arguments-and-repeat", evaluate,
            "hypothesis: any of the 19 algorithms on a C01/C03/C05 input (list, int/float numpy array, dict, names + value function) incl. "
            "refused calls (oversize item, invalid cbldm bin count); a deep snapshot of the argument (element types and reprs, array "
            "bytes/dtype/flags, dict items in order, the value table) must be unchanged after the call - also when the call raises; the "
            "call repeated on the same object and on a freshly built equal object must give the identical result (bin order and in-bin "
            "order included); non-trivial = >= 2 items and (non-list argument, or a refused call, or repeated values)",
            strategy=single_cases(), n_quick=4000, n_thorough=80000, valid=valid, shrink=shrink, floor=0.3),
        Leg("arguments-and-repeat-large", evaluate, "hypothesis: the eleven cheap heuristics on 40-303 items (partitioners with 2-40 bins), "
            "seven presentations; same snapshots and repetitions; same rule", strategy=large_single_cases(), n_quick=600, n_thorough=12000,
            valid=valid, floor=0.3),
        Leg("history", evaluate,
            "hypothesis, histories generated as data: 3-9 calls of any of the 19 algorithms over a pool of 1-3 input OBJECTS that are "
            "shared between the calls of the history, incl. repeated calls and refused calls (oversize item, cbldm with 3 bins). The "
            "whole history runs in a child fork()ed from a pristine interpreter that has imported prtpy and never called it; each call "
            "also runs alone in its own pristine child on freshly built arguments (the reference). Every result in the history must equal "
            "its reference and no argument may change. Calls and inputs are generated RELATED to earlier ones (same algorithm with another number "
            "of bins / bin size / objective / input; same names with other values; permuted; same total). non-trivial = >= 2 different algorithms, "
            "one algorithm called in two different ways, and a repeated call or a refused call or a shared input object",
            strategy=history_cases().map(fix_history), n_quick=2000, n_thorough=40000, valid=valid, shrink=shrink, floor=0.2),
        Leg("parameter-sweeps", evaluate,
            "hypothesis: one algorithm on one shared input object, called with 3-5 parameter values in a row (number of bins / bin size up and "
            "down; bin completion on planted 7-10 item inputs where its search runs), checked like a history; non-trivial as for histories",
            strategy=sweep_cases().map(fix_history), n_quick=1600, n_thorough=24000, valid=valid, shrink=shrink, floor=0.05),
    ]


def main():
    return runner.run_check(PROP, legs(env.tier()), level="exploration", assumptions=[
        "the reference state is a fresh interpreter that has imported prtpy (post-import state), reached by fork(), so that a reference "
        "costs milliseconds; CBC answers are bit-identical across processes on this platform",
        "results are compared after normalisation to plain ints / floats / lists, including bin order and in-bin order",
        "exponential algorithms are called on <= 8 items inside histories"])
