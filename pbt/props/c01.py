"""
C01 - every partitioner returns a true partition into the requested number of bins.
"""
import itertools

from hypothesis import strategies as st

from .. import cases, common, env, preds, runner, strategies as S, sut
from ..runner import Failure, Leg, Result

PROP = "C01"
KNOWN_RNP = f"{PROP}/rnp/numbins>=6"


def check_bins(case):
    def fn(p, o):
        if not o.ok:
            return [("exception", f"{o.exc_type}@{o.where}")]
        return preds.partition_problems(p, o.value, case["numbins"], may_return_fewer=(case["alg"] == "multifit"))
    return fn


def evaluate(case):
    alg, k, values = case["alg"], case["numbins"], case["values"]
    labels = [f"alg={alg}", f"pres={case.get('pres', 'list')}", f"profile={case.get('profile', '-')}"]
    labels += S.value_labels(values, k)
    p, o = sut.run_case(case, "Partition")
    fails = []
    inconclusive = None
    if not o.ok:
        if common.rnp_known(PROP, case, o):
            fails.append(Failure(KNOWN_RNP, {"raised": o.exc_type, "where": o.where}))
        else:
            fails.append(Failure(common.exception_bucket(PROP, alg, o), o.describe()))
    else:
        probs = check_bins(case)(p, o)
        if probs and alg == "ilp" and common.ilp_retry(case, "Partition", check_bins(case)):
            inconclusive, probs = "solver-inconsistency", []
        fails += common.failures_from(PROP, alg, probs)
    interesting = ("has-zero" in labels or "has-repeat" in labels or "k>n" in labels
                   or case.get("pres", "list") != "list")
    nontrivial = len(values) >= 2 and k >= 2 and interesting
    summary = o.describe() if not o.ok else {"bins": sut.jsonable(o.value)}
    return Result(fails, labels, nontrivial, inconclusive, summary)


def exhaustive_cases(tier):
    """Every multiset of <= 5 values from 0..3 x numbins 1..6 x every algorithm (cg: 3 objectives, default switches
    and all switches off; dp/ilp: difference objective).  Quick takes a deterministic slice of it."""
    idx = 0
    for n in range(1, 6):
        for values in itertools.combinations_with_replacement(range(0, 4), n):
            for k in range(1, 7):
                for alg in cases.ALL_PARTITIONERS:
                    if alg == "cbldm" and k != 2:
                        continue
                    if alg == "rnp" and k > cases.RNP_MAX_BINS:
                        continue
                    if alg == "ilp" and k > 4:
                        continue
                    variants = [None]
                    if alg == "cg":
                        variants = [{"objective": o, "switches": sw} for o in S.CG_OBJECTIVES
                                    for sw in ([1, 1, 0, 1], [0, 0, 0, 0], [1, 1, 1, 1])]
                    elif alg in ("dp", "ilp"):
                        variants = [{"objective": "diff"}]
                    for opts in variants:
                        idx += 1
                        if tier == "quick" and (idx * 2654435761 + env.seed()) % 12 != 0:
                            continue
                        if tier == "thorough" and alg == "ilp" and (idx + env.seed()) % 3 != 0:
                            continue      # ILP costs ~7 ms a solve: a third of its scope per run
                        case = {"alg": alg, "values": list(values), "numbins": k, "pres": "list", "nseed": 0}
                        if opts:
                            case["opts"] = opts
                        yield case


@st.composite
def rnp_known_region(draw):
    k = draw(st.integers(6, 8))
    _, values = draw(S.values_lists(3, 9, numbins=k, profiles=["tiny", "small", "medium", "one-dominant"]))
    return {"alg": "rnp", "values": values, "numbins": k, "pres": "list", "nseed": 0, "known_region": True}


@st.composite
def cheap_volume_cases(draw):
    """The four cheap heuristics get tens of thousands of cases: a defect that needs a particular shape of 7+ items (for example
    multifit returning one bin too many because its last packing step disagrees with its feasibility test) shows on well under 0.1 %
    of inputs."""
    alg = draw(st.sampled_from(["multifit", "multifit", "multifit", "greedy", "kk", "roundrobin"]))
    k = draw(st.sampled_from([2, 2, 3, 3, 4, 5, 6]))
    n = draw(st.integers(5, 16))
    style = draw(st.sampled_from(["uniform-20", "uniform-50", "uniform-200", "big+middle+small", "big+middle+small"]))
    seed = draw(st.integers(0, 2 ** 40))
    if style == "big+middle+small":
        nb, nm = 1 + seed % 2, 2 + (seed >> 3) % 3
        values = S.splitmix(seed, nb, 15, 45) + S.splitmix(seed + 1, nm, 8, 25) + S.splitmix(seed + 2, max(1, n - nb - nm), 1, 8)
        keys = S.splitmix(seed + 3, len(values), 0, 2 ** 30)
        values = [values[i] for i in sorted(range(len(values)), key=lambda i: (keys[i], i))]
    else:
        values = S.splitmix(seed, n, 0 if seed % 5 == 0 else 1, int(style.split("-")[1]))
    case = {"alg": alg, "values": values, "numbins": k, "pres": draw(st.sampled_from(["list", "list", "list", "dict-str", "array"])),
            "nseed": draw(st.integers(0, 5)), "profile": "volume-" + style}
    if alg == "multifit":
        case["opts"] = {"iterations": draw(st.sampled_from([1, 2, 3, 5, 10, 10, 10, 12]))}
    return case


@st.composite
def large_input_cases(draw):
    """The four cheap heuristics far beyond the sizes of the other legs: 40-300 items, 2-40 bins."""
    alg = draw(st.sampled_from(["multifit", "greedy", "kk", "roundrobin"]))
    n = draw(st.sampled_from([40, 64, 65, 100, 128, 129, 200, 256, 257, 300])) + draw(st.integers(0, 3))
    k = draw(st.sampled_from([2, 3, 7, 8, 9, 16, 17, 32, 33, 40]))
    style = draw(st.sampled_from(["uniform-9", "uniform-1000", "uniform-1000000", "few-values", "near-equal"]))
    seed = draw(st.integers(0, 2 ** 40))
    if style == "few-values":
        pool = S.splitmix(seed + 1, 3, 0, 30)
        values = [pool[i] for i in S.splitmix(seed, n, 0, 2)]
    elif style == "near-equal":
        values = [10 ** 6 + d for d in S.splitmix(seed, n, 0, 40)]
    else:
        values = S.splitmix(seed, n, 0 if seed % 4 == 0 else 1, int(style.split("-")[1]))
    case = {"alg": alg, "values": values, "numbins": k, "nseed": draw(st.integers(0, 5)), "profile": "large-" + style,
            "pres": draw(st.sampled_from(["list", "list", "array", "dict-str", "dict-int", "names", "names-array"]))}
    if alg == "multifit" and draw(st.booleans()):
        case["opts"] = {"iterations": draw(st.sampled_from([1, 3, 10, 20]))}
    return case


@st.composite
def named_repeats_cases(draw):
    """The recursive searches at the sizes where their nested levels run (4-5 bins, 8-10 items), items given BY NAME with many repeated
    values: code that identifies an item by its value (a memo keyed by values, a difference of value lists) loses or duplicates names
    only here."""
    alg = draw(st.sampled_from(["rnp", "rnp", "rnp", "snp", "snp", "ckk", "cg"]))
    k = draw(st.sampled_from([4, 5, 5, 5]))
    n = cases.max_items(alg, k) - draw(st.sampled_from([0, 0, 0, 1]))
    seed = draw(st.integers(0, 2 ** 48))
    style = seed % 3
    if style == 0:
        pool = S.splitmix(seed, 3 + seed % 3, 1, 30)
        values = [pool[i] for i in S.splitmix(seed + 1, n, 0, len(pool) - 1)]
    elif style == 1:
        half = S.splitmix(seed, (n + 1) // 2, 1, 40)
        values = (half + half)[:n]
    else:
        values = S.splitmix(seed, n, 5, 30)
        values[1] = values[0]
        values[-1] = values[2]
    keys = S.splitmix(seed + 2, n, 0, 2 ** 30)
    values = [values[i] for i in sorted(range(n), key=lambda i: (keys[i], i))]
    case = {"alg": alg, "values": values, "numbins": k, "nseed": draw(st.integers(0, 5)), "profile": "named-repeats",
            "pres": draw(st.sampled_from(["dict-str", "dict-str", "dict-int", "names", "names-array", "dict-mixed"]))}
    if alg == "cg":
        case["opts"] = {"objective": draw(st.sampled_from(S.CG_OBJECTIVES))}
    return case


def valid_large(case):
    v, k = case.get("values"), case.get("numbins")
    return (case.get("alg") in ("multifit", "greedy", "kk", "roundrobin") and isinstance(v, list) and 1 <= len(v) <= 400
            and all(isinstance(x, int) and x >= 0 for x in v) and isinstance(k, int) and 1 <= k <= 64 and sum(v) < 2 ** 53)


def legs(tier):
    rule = ("hypothesis: (algorithm, profile-mixed non-negative ints, numbins 1..6, one of 5 presentations, options); "
            "non-trivial = >=2 items, >=2 bins and at least one of zero-valued item / repeated value / numbins > "
            "items / non-list presentation")
    return [
        Leg("corpus", evaluate, "committed regression inputs (every input that exposed a defect)",
            corpus=common.load_corpus(PROP), valid=cases.valid_partition_case, shards=1),
        Leg("random", evaluate, rule, strategy=cases.partition_cases(), n_quick=6000, n_thorough=120000,
            valid=cases.valid_partition_case, floor=0.3),
        Leg("cheap-heuristics-volume", evaluate,
            "hypothesis: multifit (iterations 1..12) / greedy / kk / roundrobin on 5-16 evenly spread items (uniform, or one or two big + a few "
            "middle + several small), 2-6 bins: the cheap algorithms get tens of thousands of cases; same non-triviality rule",
            strategy=cheap_volume_cases(), n_quick=24000, n_thorough=400000, valid=cases.valid_partition_case, floor=0.1),
        Leg("named-repeats-deep", evaluate,
            "hypothesis: rnp / snp / ckk / cg with 4-5 bins at their largest sizes (rnp 9-10 items), items given by name (dict, names + value "
            "function, id array) with many repeated values; same predicates and rule",
            strategy=named_repeats_cases(), n_quick=1200, n_thorough=24000, valid=cases.valid_partition_case, floor=0.3, shards=16),
        Leg("large-inputs", evaluate,
            "hypothesis: multifit / greedy / kk / roundrobin on 40-303 items (sizes around powers of two included) and 2-40 bins, seven "
            "presentations, values up to 9 / 10^3 / 10^6, three repeated values, near-equal large values; same predicates and rule",
            strategy=large_input_cases(), n_quick=1600, n_thorough=30000, valid=valid_large, floor=0.1),
        Leg("exhaustive-small", evaluate,
            "every multiset of <=5 values from 0..3 x numbins 1..6 x every algorithm (quick: 1/12 slice; ILP a third "
            "per thorough run); same non-triviality rule",
            enum=exhaustive_cases, valid=cases.valid_partition_case, exhaustive=True,
            scope="multisets(<=5 from 0..3) x numbins 1..6 x 11 algorithms"),
        Leg("known-rnp>=6", evaluate, "rnp with 6-8 bins: the region of the recorded known finding",
            strategy=rnp_known_region(), n_quick=60, n_thorough=600, shards=1,
            valid=cases.valid_partition_case),
    ]


def main():
    return runner.run_check(PROP, legs(env.tier()), level="exploration", assumptions=[
        "bin sums are exact in float64 (total < 2^53)",
        "names inside one input are homogeneous (all str or all int)",
        "ILP values <= 200; an ILP answer that fails and passes when re-solved with CBC preprocessing off is a "
        "solver inconsistency (inconclusive), not a prtpy violation",
        "rnp is generated with <= 5 bins in the main legs (known finding C01/rnp/numbins>=6)",
    ])
