"""
C07 - the answer does not depend on how the items are presented.
"""
from hypothesis import strategies as st

from .. import cases, common, env, preds, runner, strategies as S, sut
from ..runner import Failure, Leg, Result

PROP = "C07"


def named_problems(case, p, bins):
    alg = case["alg"]
    kind = sut.kind_of(alg)
    if kind == "partition":
        return preds.partition_problems(p, bins, case["numbins"], may_return_fewer=(alg == "multifit"))
    if kind == "pack":
        return preds.packing_problems(p, bins, case["binsize"], may_drop_zeros=(alg == "bc"))
    return preds.cover_problems(p, bins, case["binsize"])


def problems_of(case):
    """Run the case in all seven presentations.  Returns (problems, per-presentation sorted sums, calls)."""
    probs, seen = [], {}
    for pres in sut.PRESENTATIONS:
        p, o = sut.run_case(case, "PartitionAndSumsTuple", pres=pres)
        if not o.ok:
            probs.append((f"{pres}:exception:{o.exc_type}@{o.where}", o.describe()))
            continue
        sums, bins = o.value
        np_ = named_problems(case, p, bins)
        if np_:
            probs += [(f"{pres}:{r}", d) for r, d in np_]
            continue
        real = preds.bin_sums(p, bins)
        if list(real) != list(sums):
            probs.append((f"{pres}:values-of-names-do-not-reproduce-sums", {"reported": sut.jsonable(sums), "from_names": sut.jsonable(real)}))
        seen[pres] = sorted(sums)
    if "list" in seen:
        for pres, s in seen.items():
            if s != seen["list"]:
                probs.append((f"{pres}:sums-differ-from-list-presentation", {"list": sut.jsonable(seen["list"]), pres: sut.jsonable(s)}))
    return probs, seen, len(sut.PRESENTATIONS)


def evaluate(case):
    alg, values = case["alg"], case["values"]
    labels = [f"alg={alg}", f"kind={sut.kind_of(alg)}", f"nseed%3={case.get('nseed', 0) % 3}"] + S.value_labels(values)
    probs, seen, calls = problems_of(case)
    inconclusive = None
    if probs and alg == "ilp":
        with sut.ilp_preprocess_off():
            again, _, c2 = problems_of(case)
        calls += c2
        if not again:
            inconclusive, probs = "solver-inconsistency", []
    fails = [Failure(f"{PROP}/{alg}/{reason}", {"reason": reason, "what": detail}) for reason, detail in probs]
    # non-trivial: >= 3 items, >= 2 distinct values, and the integer names are not order-isomorphic to the values
    names = sut.int_names(values, case.get("nseed", 0))
    order_v = sorted(range(len(values)), key=lambda i: (values[i], i))
    order_n = sorted(range(len(values)), key=lambda i: (names[i], i))
    misleading = order_v != order_n
    if misleading:
        labels.append("names-order-differs-from-values")
    nontrivial = len(values) >= 3 and len(set(values)) >= 2 and misleading
    return Result(fails, labels, nontrivial, inconclusive, {"sorted_sums": sut.jsonable(seen.get("list")), "agreeing": sorted(seen)},
                  subcases=calls)


@st.composite
def random_cases(draw):
    kind = draw(st.sampled_from(["partition", "partition", "partition", "pack", "pack", "cover", "cover"]))
    if kind == "partition":
        case = draw(cases.partition_cases(presentations=["list"], max_len=12))
    elif kind == "pack":
        case = draw(cases.packing_cases(presentations=["list"], eighths=False))
    else:
        case = draw(cases.covering_cases(presentations=["list"]))
    return case


@st.composite
def tie_cases(draw):
    """Few distinct values, many ties: the class where a tie-break by name (instead of by input order) shows."""
    alg = draw(st.sampled_from(["greedy", "kk", "multifit", "roundrobin", "cg", "ckk", "snp", "rnp", "cbldm", "ff", "ffd", "bf",
                                "bfd", "bc", "decreasing", "twothirds", "threequarters"]))
    pool = draw(st.lists(st.integers(1, 12), min_size=2, max_size=3, unique=True))
    if alg in sut.PARTITIONERS:
        k = 2 if alg == "cbldm" else draw(st.integers(2, 4))
        n = draw(st.integers(3, min(9, cases.max_items(alg, k))))
        values = draw(st.lists(st.sampled_from(pool), min_size=n, max_size=n))
        case = {"alg": alg, "values": values, "numbins": k}
        if alg == "cg":
            case["opts"] = {"objective": draw(st.sampled_from(S.CG_OBJECTIVES)), "switches": draw(S.switches)}
    else:
        C = draw(st.sampled_from([12, 13, 20, 24, 30]))
        n = draw(st.integers(3, 10))
        values = draw(st.lists(st.sampled_from(pool + [C // 2, C // 3]), min_size=n, max_size=n))
        case = {"alg": alg, "values": values, "binsize": C}
    case.update(pres="list", nseed=draw(st.integers(0, 5)), profile="ties")
    return case


@st.composite
def mirrored_cases(draw):
    """Inputs made of two (or three) value-identical halves under different names: the sub-problems of a recursive or memoising
    algorithm repeat with other names, so a result keyed by values instead of names shows as a lost or duplicated name."""
    alg = draw(st.sampled_from(["rnp", "rnp", "rnp", "snp", "ckk", "cg", "kk", "greedy", "multifit", "cbldm", "dp", "bc", "ffd", "threequarters"]))
    h = draw(st.sampled_from([3, 4, 5, 5, 5]))
    base = draw(st.lists(st.integers(1, draw(st.sampled_from([4, 9, 30]))), min_size=h, max_size=h))
    values = base + list(draw(st.permutations(base)))
    if alg in sut.PARTITIONERS:
        k = 2 if alg == "cbldm" else draw(st.sampled_from([4, 4, 5] if alg == "rnp" else [2, 3, 4, 4, 5]))
        if alg in ("dp", "cg") and k > 3:
            k = 3
        values = values[:cases.max_items(alg, k)]
        case = {"alg": alg, "values": values, "numbins": k}
        if alg == "cg":
            case["opts"] = {"objective": draw(st.sampled_from(S.CG_OBJECTIVES)), "switches": [1, 1, 0, 1]}
        elif alg == "dp":
            case["opts"] = {"objective": "diff"}
    else:
        case = {"alg": alg, "values": values, "binsize": max(values) * draw(st.integers(1, 3)) + draw(st.integers(0, 5))}
    case.update(pres="list", nseed=draw(st.integers(0, 5)), profile="mirrored")
    return case


@st.composite
def few_values_recursive_cases(draw):
    """snp / rnp / ckk on 8-10 items drawn from 2-4 distinct values, 3-4 bins: as plain numbers equal items are indistinguishable, as named
    items they are not - code that tells candidate sub-collections apart by their items behaves differently in the two presentations."""
    seed = draw(st.integers(0, 2 ** 48))
    alg = ["snp", "snp", "rnp", "rnp", "ckk"][seed % 5]
    k = [3, 3, 4][(seed >> 3) % 3]
    n = 8 + (seed >> 5) % 3
    pool = S.splitmix(seed >> 8, 2 + (seed >> 7) % 3, 1, [15, 15, 40][(seed >> 10) % 3])
    values = [pool[i] for i in S.splitmix(seed >> 12, n, 0, len(pool) - 1)]
    return {"alg": alg, "values": values, "numbins": k, "pres": "list", "nseed": (seed >> 20) % 6, "profile": "few-distinct-values"}


def valid(case):
    alg = case.get("alg")
    if alg in sut.PARTITIONERS:
        return cases.valid_partition_case(case)
    if alg in sut.PACKERS:
        return cases.valid_packing_case(case) and (alg != "bc" or len(case["values"]) <= 12)
    if alg in sut.COVERERS:
        return cases.valid_covering_case(case)
    return False


def legs(tier):
    rule = ("hypothesis: any of the 19 algorithms on a C01/C03/C05 integer input, run in all seven presentations (list, "
            "numpy array, dict with string names, dict with integer names chosen to mislead, dict with names of both kinds, names + value function, id array + value function); "
            "oracle: identical sorted sum vector in all five, named result is a partition/packing/cover of the names, "
            "values of the names reproduce the reported sums; non-trivial = >= 3 items, >= 2 distinct values and the integer "
            "names are ordered differently from the values")
    return [
        Leg("corpus", evaluate, "committed regression inputs (cited instances)", corpus=common.load_corpus(PROP), valid=valid, shards=2),
        Leg("random", evaluate, rule, strategy=random_cases(), n_quick=3500, n_thorough=70000, valid=valid, floor=0.3),
        Leg("large-inputs", evaluate, "hypothesis: the eleven cheap heuristics on 40-303 items (partitioners with 2-40 bins), six presentations; same oracle and rule",
            strategy=cases.large_heuristic_cases(["list"]), n_quick=500, n_thorough=10000, valid=cases.valid_large_case, floor=0.3),
        Leg("ties", evaluate, "hypothesis: inputs drawn from 2-3 distinct values (many ties); same oracle and rule",
            strategy=tie_cases(), n_quick=1200, n_thorough=20000, valid=valid, floor=0.3),
        Leg("few-distinct-values", evaluate, "hypothesis: snp / rnp / ckk with 3-4 bins on 8-10 items drawn from 2-4 distinct values (plain numbers "
            "are indistinguishable where named items are not); same oracle and rule", strategy=few_values_recursive_cases(), n_quick=600,
            n_thorough=4000, valid=valid, floor=0.3, shards=16),
        Leg("mirrored", evaluate, "hypothesis: inputs made of two value-identical halves (6-10 items) for the recursive / memoising algorithms "
            "(rnp, snp, ckk, cg, dp, bin completion ...) and some heuristics; same oracle and rule",
            strategy=mirrored_cases(), n_quick=900, n_thorough=18000, valid=valid, floor=0.3),
    ]


def main():
    return runner.run_check(PROP, legs(env.tier()), level="exploration", assumptions=[
        "names inside one input are distinct; strings, integers, or (presentation dict-mixed) both kinds in one dict",
        "integer values (arrays are int64 or float64 holding the same integers)",
        "ILP: a disagreement that disappears when re-solved with CBC preprocessing off is a solver inconsistency",
        "size envelope per algorithm as in C01"])
