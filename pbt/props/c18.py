"""
C18 - results respect problem symmetries; exact solvers agree beyond oracle size.
"""
from hypothesis import strategies as st

from .. import cases, common, env, oracles, preds, refmodels, runner, strategies as S, sut
from ..runner import Failure, Leg, Result

PROP = "C18"
SORTING_HEURISTICS = ["greedy", "roundrobin", "multifit", "kk", "ffd", "bfd", "decreasing", "twothirds", "threequarters"]
SCALABLE_HEURISTICS = SORTING_HEURISTICS + ["ff", "bf"]
EXACT = ["cg", "ckk", "snp", "rnp", "dp", "ilp", "cbldm", "bc"]
FACTORS = [2, 3, 7, 10, 1024]


def spec_of(case):
    alg = case["alg"]
    if alg in ("cg", "dp", "ilp"):
        return (case.get("opts") or {}).get("objective", "diff")
    return "diff"


def observe(case):
    """-> (outcome, observation): sorted sum vector for heuristics, optimal value for exact algorithms (bin count for bc)."""
    alg = case["alg"]
    if case.get("out") == "Sums" and alg in EXACT and alg != "bc":
        # the sums-only path of the exact algorithms (another bins-manager; for ckk another pairing enumerator)
        p, o = sut.run_case(case, "Sums")
        if not o.ok:
            return o, None
        real = list(o.value)
        if len(real) != case["numbins"] or sum(real) != sum(case["values"]):
            return o, ("inconsistent", sut.jsonable(real), f"{case['numbins']} bins, total {sum(case['values'])} expected")
        if alg == "cbldm":
            return o, ("value", abs(real[0] - real[1]))
        return o, ("value", oracles.objective_value(spec_of(case), real)[0])
    p, o = sut.run_case(case, "PartitionAndSumsTuple")
    if not o.ok:
        return o, None
    sums, bins = o.value
    real = preds.bin_sums(p, bins)
    if list(real) != list(sums):
        return o, ("inconsistent", sut.jsonable(sums), sut.jsonable(real))
    if alg in EXACT:
        if alg == "bc":
            return o, ("value", len(bins))
        if alg == "cbldm":
            return o, ("value", abs(real[0] - real[1]))
        return o, ("value", oracles.objective_value(spec_of(case), real)[0])
    return o, ("sums", sorted(real))


def transform(case):
    t = case["transform"]
    new = {k: v for k, v in case.items() if k != "transform"}
    vals = list(case["values"])
    if t["kind"] == "perm":
        keys = S.splitmix(t["seed"], len(vals), 0, 2 ** 40)
        order = sorted(range(len(vals)), key=lambda i: (keys[i], i))
        if t.get("reverse"):
            order = list(reversed(range(len(vals))))
        new["values"] = [vals[i] for i in order]
    elif t["kind"] == "scale":
        c = t["c"]
        new["values"] = [v * c for v in vals]
        if "binsize" in case:
            new["binsize"] = case["binsize"] * c
    else:  # zeros
        for pos in t["positions"]:
            vals.insert(min(pos, len(vals)), 0)
        new["values"] = vals
    return new


def evaluate_pair(case):
    alg = case["alg"]
    t = case["transform"]
    labels = [f"alg={alg}", f"transform={t['kind']}", "exact" if alg in EXACT else "heuristic"]
    other = transform(case)

    def compare():
        o1, a = observe({k: v for k, v in case.items() if k != "transform"})
        o2, b = observe(other)
        if not o1.ok or not o2.ok:
            bad = o1 if not o1.ok else o2
            return [(f"exception:{bad.exc_type}@{bad.where}", dict(bad.describe(), on="original" if not o1.ok else "transformed"))], a, b
        if a[0] == "inconsistent" or b[0] == "inconsistent":
            return [("sums-do-not-describe-bins", {"original": a, "transformed": b})], a, b
        c = t["c"] if t["kind"] == "scale" else 1
        if a[0] == "value":
            exp = a[1] * c if alg != "bc" else a[1]
            if b[1] != exp:
                return [(f"optimal-value-changed-under-{t['kind']}", {"original": sut.jsonable(a[1]), "transformed": sut.jsonable(b[1]),
                                                                     "expected": sut.jsonable(exp), "transformed_input": other["values"]})], a, b
        else:
            exp = [s * c for s in a[1]]
            if b[1] != exp:
                return [(f"sums-changed-under-{t['kind']}", {"original": sut.jsonable(a[1]), "transformed": sut.jsonable(b[1]),
                                                             "expected": sut.jsonable(exp), "transformed_input": other["values"]})], a, b
        return [], a, b
    probs, a, b = compare()
    inconclusive = None
    if probs and alg == "ilp":
        with sut.ilp_preprocess_off():
            again, _, _ = compare()
        if not again:
            inconclusive, probs = "solver-inconsistency", []
    fails = [Failure(f"{PROP}/{alg}/{r}", {"reason": r, "what": d}) for r, d in probs]
    changed = other["values"] != case["values"]
    nontrivial = changed and len(set(case["values"])) >= 2
    return Result(fails, labels, nontrivial, inconclusive, {"original": sut.jsonable(a), "transformed": sut.jsonable(b)}, subcases=2)


@st.composite
def pair_cases(draw):
    kind = draw(st.sampled_from(["perm", "perm", "scale", "scale", "scale", "zeros"]))
    if kind == "zeros":
        alg = draw(st.sampled_from(EXACT + ["bc", "bc"]))
    elif kind == "perm":
        alg = draw(st.sampled_from(SORTING_HEURISTICS + EXACT))
    else:
        alg = draw(st.sampled_from(SCALABLE_HEURISTICS + ["multifit", "multifit"] + EXACT))
    if alg in sut.PARTITIONERS:
        case = draw(cases.partition_cases(algs=[alg], presentations=["list", "list", "dict-str", "array", "names-array"], max_bins=5,
                                          profiles=["tiny", "small", "small", "small", "medium", "large", "two-valued", "one-dominant",
                                                    "planted", "arithmetic"], max_len=14))
        if alg == "cbldm":
            case.pop("opts", None)              # the default (unbounded) cardinality difference: zeros then change nothing
        if alg == "multifit":
            case.pop("opts", None)
    elif alg == "bc" and draw(st.integers(0, 2)) > 0:
        # bin completion on planted instances where best-fit-decreasing is not optimal, so that its search really runs
        C = draw(st.sampled_from([12, 20, 30, 50, 100]))
        fam, values, _ = draw(S.hard_packing(C, max_bins=3, max_len=10))
        case = {"alg": "bc", "values": values, "binsize": C, "pres": draw(st.sampled_from(["list", "list", "dict-str", "array", "names-array"])),
                "nseed": draw(st.integers(0, 5)), "profile": "bc-" + fam}
    elif alg in sut.PACKERS:
        case = draw(cases.packing_cases(algs=[alg], presentations=["list", "list", "dict-str", "array", "names-array"], eighths=False,
                                        max_len=11 if alg == "bc" else 20))
    else:
        case = draw(cases.covering_cases(algs=[alg], presentations=["list", "list", "dict-str", "array", "names-array"], max_len=20))
    if alg in EXACT and alg != "bc" and draw(st.integers(0, 2)) == 0:
        case["out"] = "Sums"
    if kind == "perm":
        case["transform"] = {"kind": "perm", "seed": draw(st.integers(0, 2 ** 30)), "reverse": draw(st.integers(0, 5)) == 0}
    elif kind == "scale":
        factors = [2, 1024, 4] if alg == "multifit" else FACTORS
        c = draw(st.sampled_from(factors))
        if alg == "ilp":
            c = draw(st.sampled_from([2, 3, 7, 10]))
            case["values"] = [min(v, 200 // c) for v in case["values"]]        # keep scaled values <= 200 for the solver
        case["transform"] = {"kind": "scale", "c": c}
    else:
        m = draw(st.integers(1, 3))
        case["transform"] = {"kind": "zeros", "positions": [draw(st.integers(0, len(case["values"]) + i)) for i in range(m)]}
        if alg in ("cg", "ckk", "snp", "rnp", "dp", "ilp"):
            cap = cases.max_items(alg, case["numbins"]) - m
            case["values"] = case["values"][:max(1, cap)]
    return case


def valid_pair(case):
    t = case.get("transform")
    if not isinstance(t, dict) or t.get("kind") not in ("perm", "scale", "zeros"):
        return False
    alg = case.get("alg")
    base = {k: v for k, v in case.items() if k != "transform"}
    if alg in sut.PARTITIONERS:
        ok = cases.valid_partition_case(base)
    elif alg in sut.PACKERS:
        ok = cases.valid_packing_case(base) and (alg != "bc" or len(base["values"]) <= 12)
    else:
        ok = alg in sut.COVERERS and cases.valid_covering_case(base)
    if not ok:
        return False
    if t["kind"] == "scale":
        if alg == "ilp" and max(base["values"]) * t["c"] > 200:
            return False
        if alg == "multifit" and t["c"] & (t["c"] - 1):
            return False
        return sum(base["values"]) * t["c"] < 2 ** 53
    if t["kind"] == "zeros" and alg not in EXACT:
        return False
    if t["kind"] == "perm" and alg not in SORTING_HEURISTICS + EXACT:
        return False
    return True


# ------------------------------------------------------------------ agreement of exact solvers beyond the oracle's size

def fork_call(case, seconds):
    from ..fresh_server import fork_eval

    def run():
        o, obs = observe(case)
        return {"ok": o.ok, "obs": sut.jsonable(obs), "raised": None if o.ok else o.describe()}
    import pbt.fresh_server as fs
    old = fs.CHILD_SECONDS
    fs.CHILD_SECONDS = seconds
    try:
        return fork_eval(run)
    finally:
        fs.CHILD_SECONDS = old


def evaluate_agreement(case):
    values, k = case["values"], case["numbins"]
    budget = case.get("seconds", 20)
    labels = [f"k={k}", f"n={len(values)}", f"profile={case.get('profile', '-')}"]
    results, timeouts, fails = {}, [], []
    plan = []
    for alg in case["algs"]:
        if alg in ("cg", "dp", "ilp"):
            for spec in case["objectives"]:
                plan.append((alg, spec))
        else:
            plan.append((alg, "diff"))
    for alg in case.get("algs_sums", []):
        plan.append((alg + "/sums-only", "diff"))
    for alg, spec in plan:
        c = {"alg": alg.split("/")[0], "values": values, "numbins": k, "pres": "list", "nseed": 0}
        if alg.endswith("/sums-only"):
            c["out"] = "Sums"
        if alg in ("cg", "dp", "ilp"):
            c["opts"] = {"objective": spec}
        r = fork_call(c, budget)
        if "child_error" in r:
            timeouts.append(f"{alg}/{spec}")
            continue
        if not r["ok"]:
            fails.append(Failure(f"{PROP}/{alg}/agreement:exception:{r['raised'].get('raised')}@{r['raised'].get('where')}", r["raised"]))
            continue
        if r["obs"][0] != "value":
            fails.append(Failure(f"{PROP}/{alg}/agreement:sums-do-not-describe-bins", {"obs": r["obs"]}))
            continue
        results[(alg, spec)] = r["obs"][1]
    for spec in sorted({s for _, s in results}):
        got = {alg: v for (alg, s), v in results.items() if s == spec}
        if len(set(got.values())) > 1:
            sense = oracles.objective_value(spec, [0])[1]
            best = min(got.values()) if sense == "min" else max(got.values())
            for alg, v in sorted(got.items()):
                if v != best:
                    fails.append(Failure(f"{PROP}/{alg}/exact-solvers-disagree",
                                         {"objective": spec, "values_reported": got, "this_algorithm": v, "best_reported": best}))
        # no heuristic may beat an exact algorithm
        if got:
            sense = oracles.objective_value(spec, [0])[1]
            exact_val = next(iter(got.values()))
            for h in ("greedy", "kk", "multifit"):
                p, o = sut.run_case({"alg": h, "values": values, "numbins": k, "pres": "list", "nseed": 0}, "PartitionAndSumsTuple")
                if not o.ok:
                    continue
                sums = preds.bin_sums(p, o.value[1])
                sums = sums + [0] * (k - len(sums))
                hv = oracles.objective_value(spec, sums)[0]
                if (hv < exact_val) if sense == "min" else (hv > exact_val):
                    for alg, v in got.items():
                        if v == exact_val:
                            fails.append(Failure(f"{PROP}/{alg}/heuristic-beats-exact-solver",
                                                 {"objective": spec, "heuristic": h, "heuristic_value": sut.jsonable(hv), "exact_value": v}))
                    break
    finished = len(results)
    labels += [f"timeout:{t}" for t in timeouts]
    inconclusive = "timeout" if timeouts and finished < 2 else None
    diffs = [v for (a, s), v in results.items() if s == "diff"]
    lpt = oracles.objective_value("diff", [sum(b) for b in refmodels.lpt(values, k)])[0]
    nontrivial = finished >= 3 and bool(diffs) and lpt != diffs[0]
    return Result(fails, labels, nontrivial, inconclusive, {"reported": {f"{a}/{s}": v for (a, s), v in results.items()}, "timeouts": timeouts},
                  subcases=len(plan))


@st.composite
def agreement_cases(draw, tier="quick"):
    k = draw(st.sampled_from([2, 3, 3, 4, 4, 5]))
    n = draw(st.integers(11, 13 if tier == "quick" else 15))
    profile = draw(st.sampled_from(["small", "small", "small-repeated", "medium", "large", "near-equal-large", "planted"]))
    if profile == "small-repeated":
        pool = draw(st.lists(st.integers(1, 12), min_size=3, max_size=6))
        values = [pool[i % len(pool)] for i in S.splitmix(draw(st.integers(0, 2 ** 40)), n, 0, 29)]
    elif profile == "small":
        values = S.splitmix(draw(st.integers(0, 2 ** 40)), n, 1, 25)
    elif profile == "medium":
        values = S.splitmix(draw(st.integers(0, 2 ** 40)), n, 1, 200)
    elif profile == "large":
        values = S.splitmix(draw(st.integers(0, 2 ** 40)), n, 1, 2 ** 20)
    elif profile == "near-equal-large":
        values = S.near_equal_large(draw(st.integers(0, 2 ** 40)), n, draw(st.sampled_from(S.NEAR_EQUAL_BASES)))
    else:
        values = list(draw(S.planted_values(k, n, max_sum=200)))[:n]
        values = values + [1] * (11 - len(values)) if len(values) < 11 else values
    algs = ["ckk", "snp", "cg"]
    if k <= 5:
        algs.append("rnp")
    if k == 2:
        algs.append("cbldm")
    if profile in ("small", "small-repeated", "planted") and k <= 3:
        algs.append("dp")
    if n <= 12 and k <= 3 and max(values) <= 200:
        algs.append("ilp")
    objectives = ["diff"] + (draw(st.sampled_from([["minmax"], ["maxmin"], ["minmax", "maxmin"], []])))
    algs_sums = [a for a in ("ckk", "snp", "cg") if a in algs and draw(st.booleans())]
    return {"kind": "agreement", "values": values, "numbins": k, "algs": algs, "algs_sums": algs_sums, "objectives": objectives, "profile": profile,
            "seconds": 20 if tier == "quick" else 60}


@st.composite
def many_bins_cases(draw):
    """5 bins, 11 items drawn from a few small values: sum vectors with repeated entries everywhere, where a pairing or
    seen-state key that forgets multiplicities loses branches; every algorithm in both forms (contents / sums-only manager)."""
    k = 5
    n = 11
    pool = draw(st.lists(st.integers(1, 9), min_size=2, max_size=5))
    values = [pool[i % len(pool)] for i in S.splitmix(draw(st.integers(0, 2 ** 40)), n, 0, 59)]
    algs = ["ckk", "cg", "rnp"]          # snp regularly needs more than 15 s on such inputs: left to the other legs
    return {"kind": "agreement", "values": values, "numbins": k, "algs": algs, "algs_sums": ["ckk", "cg"], "objectives": ["diff"],
            "profile": "many-bins-small-repeated", "seconds": 15}


# ------------------------------------------------------------------ long searches of complete greedy

def evaluate_long(case):
    """Complete greedy (the one exact search that stays fast at this size) on 13-16 items with wide values, where its search expands
    tens of thousands of states: the optimal value must scale with the values, must not depend on the search switches or on the
    bins-manager, must equal the two-dimensional subset-sum optimum for 3 bins (subset-sum optimum for 2), and no heuristic may beat it."""
    values, k, spec, c = case["values"], case["numbins"], case["objective"], case["c"]
    alg = case.get("alg", "cg")
    labels = [f"alg={alg}", f"k={k}", f"n={len(values)}", f"objective={spec}", f"factor={c}"]
    sense = oracles.objective_value(spec, [0])[1]
    fails, seen = [], {}

    def run(name, vals, opts, out=None):
        cs = {"alg": alg, "values": vals, "numbins": k, "pres": "list", "nseed": 0}
        if alg == "cg":
            cs["opts"] = dict(opts, objective=spec)
        if out:
            cs["out"] = out
        o, obs = observe(cs)
        if not o.ok:
            fails.append(Failure(f"{PROP}/{alg}/long:exception:{o.exc_type}@{o.where}", dict(o.describe(), run=name)))
            return None
        if obs[0] != "value":
            fails.append(Failure(f"{PROP}/{alg}/long:sums-do-not-describe-bins", {"run": name, "obs": sut.jsonable(obs)}))
            return None
        seen[name] = obs[1]
        return obs[1]
    base = run("default", values, {})
    scaled = run(f"values-times-{c}", [v * c for v in values], {})
    if base is not None and scaled is not None and scaled != base * c:
        fails.append(Failure(f"{PROP}/{alg}/optimal-value-changed-under-scale",
                             {"original": sut.jsonable(base), "transformed": sut.jsonable(scaled), "expected": sut.jsonable(base * c), "factor": c}))
    variant = case.get("variant")
    other = None
    if variant == "sums-only":
        other = run("sums-only", values, {}, out="Sums")
    elif isinstance(variant, list):
        other = run(f"switches={variant}", values, {"switches": variant})
    if base is not None and other is not None and other != base:
        worse = "default" if ((base > other) if sense == "min" else (base < other)) else "variant"
        fails.append(Failure(f"{PROP}/{alg}/exact-solvers-disagree", {"objective": spec, "values_reported": sut.jsonable(seen), "worse": worse}))
    if base is not None and k in (2, 3) and sum(values) <= 40000:
        want = oracles.opt_two_way(values, spec) if k == 2 else oracles.opt_three_way(values, spec)
        labels.append("independent-optimum")
        if base != want:
            fails.append(Failure(f"{PROP}/{alg}/long:not-the-optimal-value", {"objective": spec, "reported": sut.jsonable(base), "optimum": sut.jsonable(want)}))
    if base is not None:
        for h, bins in (("greedy", refmodels.lpt(values, k)),):
            hv = oracles.objective_value(spec, [sum(b) for b in bins])[0]
            if (hv < base) if sense == "min" else (hv > base):
                fails.append(Failure(f"{PROP}/{alg}/heuristic-beats-exact-solver", {"objective": spec, "heuristic": h, "heuristic_value": sut.jsonable(hv),
                                                                                 "exact_value": sut.jsonable(base)}))
    lpt = oracles.objective_value(spec, [sum(b) for b in refmodels.lpt(values, k)])[0]
    nontrivial = base is not None and lpt != base
    return Result(fails, labels, nontrivial, None, {"reported": sut.jsonable(seen)}, subcases=len(seen))


@st.composite
def long_cases(draw):
    k = draw(st.sampled_from([2, 3, 3, 3, 4, 4, 5]))
    n = draw(st.integers(13, 16 if k <= 4 else 14))
    hi = draw(st.sampled_from([60, 300, 1000, 1000, 1000, 5000]))
    values = S.splitmix(draw(st.integers(0, 2 ** 40)), n, max(1, hi // 6), hi)
    variant = draw(st.sampled_from([None, "sums-only", [1, 1, 1, 1], [1, 0, 0, 1], [1, 1, 0, 0], [1, 0, 1, 1]]))
    return {"kind": "long", "values": values, "numbins": k, "objective": draw(st.sampled_from(["diff", "minmax", "maxmin"])),
            "c": draw(st.sampled_from(FACTORS)), "variant": variant}


@st.composite
def three_way_cases(draw):
    """snp / rnp / ckk with three bins and 11-13 items: fast enough there, and the two-dimensional subset-sum table gives the optimum."""
    alg = draw(st.sampled_from(["snp", "snp", "rnp", "ckk"]))
    n = draw(st.integers(11, 12 if alg == "ckk" else 13))
    hi = draw(st.sampled_from([20, 60, 60, 200, 1000]))
    return {"kind": "long", "alg": alg, "values": S.splitmix(draw(st.integers(0, 2 ** 40)), n, 1, hi), "numbins": 3, "objective": "diff",
            "c": draw(st.sampled_from(FACTORS)), "variant": draw(st.sampled_from([None, None, "sums-only"]))}


def valid_long(case):
    v, k = case.get("values"), case.get("numbins")
    var = case.get("variant")
    return (isinstance(v, list) and 2 <= len(v) <= 16 and all(isinstance(x, int) and x >= 0 for x in v) and isinstance(k, int) and 2 <= k <= 5
            and case.get("objective") in ("diff", "minmax", "maxmin") and isinstance(case.get("c"), int) and 1 <= case["c"] <= 1024
            and case.get("alg", "cg") in ("cg", "snp", "rnp", "ckk") and (case.get("alg", "cg") == "cg" or (case["objective"] == "diff" and var in (None, "sums-only")))
            and sum(v) <= 10 ** 6 and (var in (None, "sums-only") or (isinstance(var, list) and len(var) == 4 and var[0] in (0, 1) and var[0] == 1)))


def shrink_long(case):
    v = case["values"]
    for i in range(len(v)):
        if len(v) > 3:
            yield dict(case, values=v[:i] + v[i + 1:])
    if case.get("variant") is not None:
        yield dict(case, variant=None)
    if case["c"] != 2:
        yield dict(case, c=2)
    for i, x in enumerate(v):
        for c in sorted({1, x // 2, x - 1}):
            if 0 <= c < x:
                yield dict(case, values=v[:i] + [c] + v[i + 1:])


def valid_agreement(case):
    v, k = case.get("values"), case.get("numbins")
    return (isinstance(v, list) and 2 <= len(v) <= 16 and all(isinstance(x, int) and x >= 0 for x in v) and isinstance(k, int)
            and 2 <= k <= 6 and sum(v) < 2 ** 53 and isinstance(case.get("algs"), list) and case["algs"])


def shrink_agreement(case):
    v = case["values"]
    for i in range(len(v)):
        if len(v) > 3:
            yield dict(case, values=v[:i] + v[i + 1:])
    for alg in case["algs"]:
        if len(case["algs"]) > 2:
            yield dict(case, algs=[a for a in case["algs"] if a != alg])
    for i, x in enumerate(v):
        for c in sorted({1, x // 2, x - 1}):
            if 0 <= c < x:
                yield dict(case, values=v[:i] + [c] + v[i + 1:])


def evaluate(case):
    if case.get("kind") == "long":
        return evaluate_long(case)
    return evaluate_agreement(case) if case.get("kind") == "agreement" else evaluate_pair(case)


def valid(case):
    if case.get("kind") == "long":
        return valid_long(case)
    return valid_agreement(case) if case.get("kind") == "agreement" else valid_pair(case)


def shrink(case):
    if case.get("kind") == "long":
        yield from shrink_long(case)
        return
    if case.get("kind") == "agreement":
        yield from shrink_agreement(case)
        return
    t = case["transform"]
    for cand in runner.generic_shrink({k: v for k, v in case.items() if k != "transform"}):
        t2 = t
        if t["kind"] == "zeros":
            t2 = dict(t, positions=[min(p, len(cand["values"])) for p in t["positions"]])
        yield dict(cand, transform=t2)
    if t["kind"] == "zeros" and len(t["positions"]) > 1:
        yield dict(case, transform=dict(t, positions=t["positions"][:1]))
    if t["kind"] == "scale" and t["c"] != 2:
        yield dict(case, transform=dict(t, c=2))
    if t["kind"] == "perm" and not t.get("reverse"):
        yield dict(case, transform=dict(t, reverse=True))


def legs(tier):
    return [
        Leg("corpus", evaluate, "committed instances", corpus=common.load_corpus(PROP), valid=valid, shards=2),
        Leg("pairs", evaluate,
            "hypothesis: a C01/C03/C05 input and one transformation - a generated permutation (sorted sum vector must be unchanged for "
            "greedy, roundrobin, multifit, kk, ffd, bfd and the three covers; optimal value for cg, ckk, snp, rnp, dp, ilp, cbldm and "
            "bin_completion's count), scaling values and bin size by 2 | 3 | 7 | 10 | 2^10 (sums x c for the heuristics incl. ff, bf; "
            "optimal value x c for exact; powers of two only for multifit), or inserting 1-3 zero-valued items at generated positions "
            "(exact optimum unchanged); non-trivial = the transformed input differs from the original and has >= 2 distinct values",
            strategy=pair_cases(), n_quick=4000, n_thorough=80000, valid=valid, shrink=shrink, floor=0.4),
        Leg("agreement", evaluate,
            "hypothesis: 11-13 (thorough: 11-15) items, 2-5 bins, small / medium / 20-bit / near-equal-large / planted values; every exact "
            "algorithm that can be expected to finish (ckk, snp, rnp, cg; cbldm for 2 bins; dp and ilp on the smaller ones) runs in a "
            "forked child with a kill-timeout (20 s quick / 60 s thorough; a timeout is inconclusive): all finishers must report the same "
            "optimal difference (cg/dp/ilp also the same min-max / max-min) and greedy, kk and multifit may not beat them; non-trivial = "
            ">= 3 finishers and the greedy partition is not optimal",
            strategy=agreement_cases(tier), n_quick=128, n_thorough=1200, valid=valid, shrink=shrink, floor=0.2, case_timeout=600, shards=16),
        Leg("agreement-many-bins", evaluate,
            "hypothesis: 5 bins, 11 items drawn from 2-5 small values; ckk, complete greedy and rnp, the first two through the "
            "contents-keeping and through the sums-only bins-manager, in forked children with a kill-timeout: all must report the same "
            "optimal difference and no heuristic may beat them; same rule",
            strategy=many_bins_cases(), n_quick=160, n_thorough=3200, valid=valid, shrink=shrink, floor=0.05, case_timeout=600, shards=16),
        Leg("long-searches", evaluate,
            "hypothesis: complete greedy on 13-16 items with wide values (up to 60 | 300 | 1000 | 5000) and 2-5 bins, where its search "
            "expands tens of thousands of states, each objective: the optimal value must be multiplied by the factor when the values "
            "are (2 | 3 | 7 | 10 | 2^10), must be the same with other search switches (lower bound always on) or through the sums-only "
            "bins-manager, must equal the subset-sum optimum (2 bins) or the two-dimensional subset-sum optimum (3 bins), and greedy may "
            "not beat it; non-trivial = the greedy partition is not optimal",
            strategy=long_cases(), n_quick=320, n_thorough=9600, valid=valid, shrink=shrink, floor=0.3, shards=16),
        Leg("three-way-searches", evaluate,
            "hypothesis: snp / rnp / ckk with three bins and 11-13 items (values up to 20 ... 1000): the optimal difference must scale with "
            "the values, be the same through the sums-only bins-manager, equal the two-dimensional subset-sum optimum, and greedy may not "
            "beat it; same rule", strategy=three_way_cases(), n_quick=600, n_thorough=16000, valid=valid, shrink=shrink, floor=0.3, shards=16),
    ]


def main():
    return runner.run_check(PROP, legs(env.tier()), level="exploration", assumptions=[
        "exact algorithms are compared on the optimal value only (a permuted, scaled or zero-padded input may lead to a different, "
        "equally good partition); sorting heuristics on the sorted sum vector",
        "multifit is scaled by powers of two only (its bisection halves floats)",
        "cbldm takes part with its default (unbounded) cardinality difference",
        "agreement beyond the oracle's size can show a violation but cannot certify optimality; timeouts are inconclusive"])
