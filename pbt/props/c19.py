"""
C19 - unsatisfiable or malformed requests are refused with an error, never answered.
"""
from hypothesis import strategies as st

from .. import cases, common, env, runner, strategies as S, sut
from ..runner import Failure, Leg, Result

PROP = "C19"
PRES = ["list", "array", "dict-str", "dict-int", "names", "names-array", "dict-mixed"]
OUTS = sorted(sut.OUTPUT_TYPES)


def with_oversize(case):
    """The item list with the oversize items inserted: oversize = [[position, excess], ...] (applied in order)."""
    vals = list(case["values"])
    C = case["binsize"]
    for pos, excess in case["oversize"]:
        vals.insert(min(pos, len(vals)), C + excess)
    return vals


def evaluate_pack(case):
    alg = case["alg"]
    vals = with_oversize(case)
    positions = [i for i, v in enumerate(vals) if v > case["binsize"]]
    labels = [f"alg={alg}", f"pres={case['pres']}", f"out={case['outputtype']}", f"oversize-count={len(positions)}",
              f"den={case.get('den', 1)}"]
    bad = dict(case, values=vals)
    p, o = sut.run_case(bad, case["outputtype"])
    fails = []
    if o.ok:
        fails.append(Failure(f"{PROP}/{alg}/answered-instead-of-refusing",
                             {"returned": sut.jsonable(o.value), "items": vals, "binsize": case["binsize"], "den": case.get("den", 1)}))
    elif o.exc_type != "ValueError":
        fails.append(Failure(f"{PROP}/{alg}/wrong-exception:{o.exc_type}@{o.where}", o.describe()))
    # control: the same request without the oversize items is answered (so the refusal is about the oversize item)
    inconclusive = None
    if case["values"]:
        _, oc = sut.run_case(case, case["outputtype"])
        if not oc.ok and not (oc.exc_type == "ValueError" and oc.where == "outputtypes.extract_output_from_sums"):
            inconclusive = "control-call-failed"
    interior = any(0 < i < len(vals) - 1 for i in positions)
    if interior:
        labels.append("oversize-in-the-middle")
    if min(e for _, e in case["oversize"]) == 1:
        labels.append("oversize-by-one-unit")
    nontrivial = interior or len(positions) > 1
    return Result(fails, labels, nontrivial, inconclusive, o.describe())


CBLDM_INVALID = {
    "numbins": [0, 1, 3, 4, 5, -2],
    "time_limit": [0, -1, -0.5, 0.0, -1e-9],
    "partition_difference": [0, -1, -3, 1.5, 2.5, 0.5, 0.999, -0.5, 1e9 + 0.5],
}


def evaluate_cbldm(case):
    what = case["invalid"]
    vals = list(case["values"])
    labels = [f"invalid={what}", f"pres={case['pres']}", f"out={case['outputtype']}"]
    opts = {}
    k = 2
    if case.get("pd") is not None:
        opts["partition_difference"] = case["pd"]
    if case.get("tl") is not None:
        opts["time_limit"] = case["tl"]
    good = {"alg": "cbldm", "values": vals, "numbins": 2, "pres": case["pres"], "nseed": case.get("nseed", 0), "opts": dict(opts)}
    bad_vals = list(vals)
    if what == "numbins":
        k = case["bad"]
    elif what == "negative-item":
        pos, mag = case["bad"]
        bad_vals.insert(min(pos, len(bad_vals)), -mag)
    else:
        opts[what] = case["bad"]
    bad = {"alg": "cbldm", "values": bad_vals, "numbins": k, "pres": case["pres"], "nseed": case.get("nseed", 0), "opts": opts}
    p, o = sut.run_case(bad, case["outputtype"])
    fails = []
    if o.ok:
        fails.append(Failure(f"{PROP}/cbldm/{what}:answered-instead-of-refusing",
                             {"returned": sut.jsonable(o.value), "items": bad_vals, "numbins": k, "opts": opts}))
    elif o.exc_type != "ValueError":
        fails.append(Failure(f"{PROP}/cbldm/{what}:wrong-exception:{o.exc_type}@{o.where}", o.describe()))
    _, oc = sut.run_case(good, case["outputtype"])
    inconclusive = None if oc.ok else "control-call-failed"
    nontrivial = len(vals) >= 2 and (what != "negative-item" or 0 < case["bad"][0] < len(vals))
    return Result(fails, labels, nontrivial, inconclusive, o.describe(), subcases=2)


def evaluate_numitems(case):
    o = sut.sums_binner_numitems(case["nbins"], case["adds"], case["index"])
    fails = []
    if o.ok:
        fails.append(Failure(f"{PROP}/sums-binner/numitems-invented-a-number", {"returned": sut.jsonable(o.value), "case": case}))
    nontrivial = len(case["adds"]) >= 1
    return Result(fails, [f"nbins={case['nbins']}", f"raised={o.exc_type}"], nontrivial, None, o.describe())


def evaluate(case):
    kind = case.get("kind")
    if kind == "pack":
        return evaluate_pack(case)
    if kind == "cbldm":
        return evaluate_cbldm(case)
    return evaluate_numitems(case)


@st.composite
def pack_cases(draw):
    base = draw(cases.packing_cases(presentations=PRES, max_len=10, allow_zero=True))
    if draw(st.integers(0, 7)) == 0:
        base["values"] = []          # the oversize item(s) alone
    n_over = draw(st.sampled_from([1, 1, 1, 2, 3]))
    over = []
    for _ in range(n_over):
        pos = draw(st.integers(0, len(base["values"]) + len(over)))
        excess = draw(st.sampled_from([1, 1, 1, 2, 5, base["binsize"], 10 * base["binsize"] + 3]))
        over.append([pos, excess])
    base.update(kind="pack", oversize=over, outputtype=draw(st.sampled_from(OUTS)))
    return base


@st.composite
def cbldm_cases(draw):
    _, values = draw(S.values_lists(1, 9, numbins=2, profiles=["tiny", "small", "medium", "planted", "two-valued"]))
    what = draw(st.sampled_from(["numbins", "time_limit", "partition_difference", "negative-item"]))
    case = {"kind": "cbldm", "values": values, "invalid": what, "nseed": draw(st.integers(0, 5)),
            "pres": draw(st.sampled_from(["list", "list", "array", "dict-str", "names"])),
            "outputtype": draw(st.sampled_from(["Partition", "Sums", "PartitionAndSumsTuple", "Difference", "BinCount"]))}
    # the other arguments are valid, at default or explicitly
    if what != "partition_difference" and draw(st.booleans()):
        case["pd"] = draw(st.integers(1, 4))
    if what != "time_limit" and draw(st.booleans()):
        case["tl"] = draw(st.sampled_from([30, 60.5, 1000]))
    if what == "negative-item":
        case["bad"] = [draw(st.integers(0, len(values))), draw(st.sampled_from([1, 1, 2, 7, 100]))]
    else:
        case["bad"] = draw(st.sampled_from(CBLDM_INVALID[what]))
    return case


@st.composite
def numitems_cases(draw):
    nbins = draw(st.integers(0, 5))
    adds = [[draw(st.integers(0, 9)), draw(st.integers(0, nbins - 1))] for _ in range(draw(st.integers(0, 6)))] if nbins else []
    index = draw(st.integers(-nbins - 1, nbins + 1))
    return {"kind": "numitems", "nbins": nbins, "adds": adds, "index": index}


def valid(case):
    kind = case.get("kind")
    if kind == "pack":
        if not (isinstance(case.get("oversize"), list) and case["oversize"]):
            return False
        if any(e < 1 for _, e in case["oversize"]):
            return False
        v, C = case.get("values"), case.get("binsize")
        return isinstance(C, int) and C >= 1 and isinstance(v, list) and all(isinstance(x, int) and 0 <= x <= C for x in v)
    if kind == "cbldm":
        v = case.get("values")
        if not isinstance(v, list) or not v or any((not isinstance(x, int)) or x < 0 for x in v):
            return False
        what = case.get("invalid")
        if what == "negative-item":
            return isinstance(case.get("bad"), list) and case["bad"][1] >= 1
        return what in CBLDM_INVALID and case.get("bad") in CBLDM_INVALID[what]
    if kind == "numitems":
        nb = case.get("nbins", -1)
        return nb >= 0 and all(0 <= i < nb and v >= 0 for v, i in case.get("adds", []))
    return False


def legs(tier):
    return [
        Leg("corpus", evaluate, "committed edge cases (oversize item alone / first / last, each invalid cbldm argument)",
            corpus=common.load_corpus(PROP), valid=valid, shards=1),
        Leg("oversize", evaluate,
            "hypothesis: a valid packing input (6 profiles, ints or eighths) with 1-3 items larger than the bin size (by one "
            "unit up to 10x) inserted at generated positions; 5 packers x 5 presentations x all 10 output types; oracle: "
            "ValueError and nothing returned (control: the same call without the oversize items is answered); non-trivial = "
            "an oversize item is neither first nor last, or there are several",
            strategy=pack_cases(), n_quick=4000, n_thorough=60000, valid=valid, floor=0.3),
        Leg("cbldm-arguments", evaluate,
            "hypothesis: cbldm with exactly one invalid argument (numbins in {0,1,3,4,5,-2}; time_limit <= 0; cardinality "
            "bound non-positive or non-integral; one negative item at a generated position) and otherwise valid, explicitly "
            "given or default arguments; 4 presentations x 5 output types; oracle: ValueError (control: the valid call is "
            "answered); non-trivial = >=2 items and the negative item is not at an end",
            strategy=cbldm_cases(), n_quick=2500, n_thorough=40000, valid=valid, floor=0.3),
        Leg("numitems", evaluate,
            "hypothesis: sums-only bins-manager, arrays of 0-5 bins with 0-6 added items, numitems at any index incl. out of "
            "range; oracle: an exception, never a number; non-trivial = at least one item was added",
            strategy=numitems_cases(), n_quick=600, n_thorough=6000, valid=valid, shards=2),
    ]


def main():
    return runner.run_check(PROP, legs(env.tier()), level="exploration", assumptions=[
        "integral floats such as 2.0 and numpy integers are not generated as invalid cardinality bounds (the statement "
        "says 'not a positive integer'; accepting them would not break it)",
        "oversize means value > bin size by at least one unit (1 or 1/8)",
    ])
