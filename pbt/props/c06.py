"""
C06 - reported sums and derived outputs always describe the returned bins.
"""
from collections import Counter

from hypothesis import strategies as st

from .. import cases, common, env, preds, runner, strategies as S, sut
from ..runner import Failure, Leg, Result

PROP = "C06"
SWAPPERS = ("cbldm", "dp", "bc", "ckk", "snp", "rnp", "ilp")     # algorithms that swap or bypass the caller's bins-manager
OTHER_TYPES = ["Sums", "SortedSums", "LargestSum", "SmallestSum", "ExtremeSums", "Difference", "BinCount", "Partition",
               "PartitionAndSums"]
EXTREMES = ("LargestSum", "SmallestSum", "ExtremeSums", "Difference")


def canon_bins(bins):
    return sorted(sorted(map(str, b)) for b in bins)


def problems_of(case):
    """All disagreements between the output types of one call.  Returns (problems, tuple outcome, labels, calls)."""
    alg = case["alg"]
    probs, labels = [], []
    p, o = sut.run_case(case, "PartitionAndSumsTuple")
    calls = 1
    if not o.ok:
        return [(f"PartitionAndSumsTuple:exception:{o.exc_type}@{o.where}", o.describe())], o, labels, calls
    sums, bins = o.value
    if len(sums) != len(bins):
        return [("sums-and-bins-differ-in-length", f"{len(sums)} sums, {len(bins)} bins")], o, labels, calls
    unknown = [x for b in bins for x in b if p.value_of_name is not None and x not in p.value_of_name]
    if unknown:
        return [("unknown-item-in-bins", [str(u) for u in unknown[:4]])], o, labels, calls
    real = preds.bin_sums(p, bins)
    bad = [i for i in range(len(bins)) if real[i] != sums[i]]
    if bad:
        probs.append(("sum-does-not-describe-its-bin",
                      {"index": bad[0], "reported": sut.jsonable(sums), "actual": sut.jsonable(real)}))
    nb = len(bins)
    want = {
        "Sums": Counter(sums), "SortedSums": sorted(sums), "BinCount": nb,
        "LargestSum": max(sums) if nb else None, "SmallestSum": min(sums) if nb else None,
        "ExtremeSums": (min(sums), max(sums)) if nb else None, "Difference": (max(sums) - min(sums)) if nb else None,
    }
    for ot in OTHER_TYPES:
        p2, o2 = sut.run_case(case, ot)
        calls += 1
        if not o2.ok:
            if nb == 0 and ot in EXTREMES and o2.exc_type == "ValueError" and o2.where == "outputtypes.extract_output_from_sums":
                labels.append("extreme-of-zero-bins-refused")     # max/min of no bins is undefined; refusing is no wrong answer
                continue
            probs.append((f"{ot}:exception:{o2.exc_type}@{o2.where}", o2.describe()))
            continue
        v = o2.value
        if ot == "Sums":
            if Counter(v) != want[ot]:
                probs.append(("Sums:differs-from-partition", {"Sums": sut.jsonable(v), "from_partition": sut.jsonable(sums)}))
        elif ot in ("SortedSums", "BinCount", "LargestSum", "SmallestSum", "ExtremeSums", "Difference"):
            if v != want[ot]:
                probs.append((f"{ot}:differs-from-partition", {ot: sut.jsonable(v), "from_partition": sut.jsonable(want[ot]),
                                                               "partition_sums": sut.jsonable(sums)}))
        elif ot == "Partition":
            if canon_bins(v) != canon_bins(bins):
                probs.append(("Partition:differs-from-tuple", {"Partition": sut.jsonable(v), "tuple": sut.jsonable(bins)}))
        else:       # PartitionAndSums
            s3, b3 = v
            if len(s3) != len(b3) or any(s3[i] != sum(p2.value(x) for x in b3[i]) for i in range(len(b3))):
                probs.append(("PartitionAndSums:sum-does-not-describe-its-bin", {"sums": sut.jsonable(s3), "bins": sut.jsonable(b3)}))
            elif Counter(s3) != Counter(sums):
                probs.append(("PartitionAndSums:differs-from-tuple", {"sums": sut.jsonable(s3), "tuple": sut.jsonable(sums)}))
    return probs, o, labels, calls


def evaluate(case):
    alg = case["alg"]
    labels = [f"alg={alg}", f"pres={case.get('pres', 'list')}", f"kind={sut.kind_of(alg)}"]
    probs, o, labs, calls = problems_of(case)
    labels += labs
    inconclusive = None
    if probs and alg == "ilp":
        with sut.ilp_preprocess_off():
            again, _, _, c2 = problems_of(case)
        calls += c2
        if not again:
            inconclusive, probs = "solver-inconsistency", []
    fails = [Failure(f"{PROP}/{alg}/{reason}", {"reason": reason, "what": detail}) for reason, detail in probs]
    nonempty = sum(1 for b in o.value[1] if b) if o.ok else 0
    if alg in SWAPPERS:
        labels.append("swaps-or-bypasses-binner")
    if o.ok and len(set(o.value[0])) < len(o.value[0]):
        labels.append("tied-sums")
    summary = o.describe() if not o.ok else {"sums": sut.jsonable(o.value[0]), "bins": sut.jsonable(o.value[1])}
    return Result(fails, labels, nonempty >= 2, inconclusive, summary, subcases=calls)


PRES = ["list", "list", "dict-str", "dict-str", "array", "dict-int", "names", "names-array", "dict-mixed"]


@st.composite
def random_cases(draw):
    kind = draw(st.sampled_from(["partition", "partition", "swapper", "swapper", "pack", "cover"]))
    if kind == "partition":
        return draw(cases.partition_cases(presentations=PRES, max_len=12))
    if kind == "swapper":
        if draw(st.integers(0, 3)) == 0:
            return draw(cases.packing_cases(algs=["bc"], presentations=PRES, max_len=10))
        return draw(cases.partition_cases(algs=["cbldm", "dp", "ckk", "snp", "rnp", "ilp"], presentations=PRES))
    if kind == "pack":
        return draw(cases.packing_cases(presentations=PRES))
    return draw(cases.covering_cases(presentations=PRES))


@st.composite
def bc_search_cases(draw):
    """bin_completion where its search is entered (the incumbent and the result are built by different managers)."""
    C = draw(st.sampled_from([12, 20, 30, 50, 100]))
    fam, values, _ = draw(S.hard_packing(C, max_bins=3, max_len=10))
    return {"alg": "bc", "values": values, "binsize": C, "pres": draw(st.sampled_from(["list", "dict-str", "dict-int"])),
            "nseed": draw(st.integers(0, 5)), "profile": "bc-" + fam}


@st.composite
def deep_search_cases(draw):
    """The recursive search algorithms with >= 4 bins at sizes where their nested levels are exercised (they pass bins-arrays between
    recursion levels, so sums and contents can only drift apart there)."""
    alg = draw(st.sampled_from(["snp", "snp", "rnp", "rnp", "ckk"]))
    k = draw(st.sampled_from([4, 4, 5]))
    n = {4: 9, 5: 8}[k] - draw(st.sampled_from([0, 0, 1, 2]))
    hi = draw(st.sampled_from([12, 40, 200]))
    values = S.splitmix(draw(st.integers(0, 2 ** 40)), n, 1, hi)
    return {"alg": alg, "values": values, "numbins": k, "pres": draw(st.sampled_from(["list", "dict-str"])), "nseed": draw(st.integers(0, 5)),
            "profile": "deep-search"}


@st.composite
def many_bins_cases(draw):
    """5-6 bins and 5-8 items drawn from a few small values: merged sum vectors with repeated entries, where the two managers'
    pairing enumerators must both keep multiplicities."""
    alg = draw(st.sampled_from(["ckk", "ckk", "ckk", "snp", "cg", "kk"]))
    k = draw(st.sampled_from([5, 5, 6]))
    n = draw(st.integers(5, 8 if k == 5 else 7))
    seed = draw(st.integers(0, 2 ** 40))
    pool = S.splitmix(seed, 2 + seed % 3, 0, 12)
    values = [pool[i % len(pool)] for i in S.splitmix(seed + 1, n, 0, 59)]
    case = {"alg": alg, "values": values, "numbins": k, "pres": "list", "nseed": 0, "profile": "many-bins"}
    if alg == "cg":
        case["opts"] = {"objective": draw(st.sampled_from(S.CG_OBJECTIVES)), "switches": [1, 1, 0, 1]}
    return case


def valid_deep(case):
    return (case.get("alg") in ("snp", "rnp", "ckk", "cg", "kk") and case.get("numbins") in (2, 3, 4, 5, 6) and isinstance(case.get("values"), list)
            and 1 <= len(case["values"]) <= 10 and all(isinstance(v, int) and v >= 0 for v in case["values"]))


def valid(case):
    alg = case.get("alg")
    if alg in sut.PARTITIONERS:
        return cases.valid_partition_case(case)
    if alg in sut.PACKERS:
        return cases.valid_packing_case(case) and (alg != "bc" or len(case["values"]) <= 12)
    if alg in sut.COVERERS:
        return cases.valid_covering_case(case)
    return False


def legs(tier):
    return [
        Leg("corpus", evaluate, "committed regression inputs (cited instances)", corpus=common.load_corpus(PROP), valid=valid, shards=2),
        Leg("random", evaluate,
            "hypothesis: any of the 19 algorithms on a C01/C03/C05 input in one of 5 presentations; one call per output "
            "type (10 calls): sums[i] must equal the total value of bin i index by index, and every other output type must "
            "equal what is computed from the PartitionAndSumsTuple answer (Sums as a multiset); non-trivial = >= 2 non-empty "
            "bins; half of the cases use an algorithm that swaps or bypasses the caller's bins-manager",
            strategy=random_cases(), n_quick=4000, n_thorough=80000, valid=valid, floor=0.4),
        Leg("deep-search", evaluate, "hypothesis: snp / rnp / ckk with 4-5 bins and 6-9 evenly spread items (their nested recursion levels run); same rule",
            strategy=deep_search_cases(), n_quick=320, n_thorough=8000, valid=valid_deep, floor=0.4),
        Leg("many-bins", evaluate, "hypothesis: ckk (mostly), snp, cg, kk with 5-6 bins on 5-8 items drawn from 2-4 small values; same rule",
            strategy=many_bins_cases(), n_quick=1200, n_thorough=24000, valid=valid_deep, floor=0.3),
        Leg("large-inputs", evaluate, "hypothesis: the eleven cheap heuristics on 40-303 items (partitioners with 2-40 bins), ten output types; same oracle and rule",
            strategy=cases.large_heuristic_cases(PRES), n_quick=600, n_thorough=12000, valid=cases.valid_large_case, floor=0.3),
        Leg("bc-search", evaluate, "hypothesis: bin_completion on planted 'hard' instances where its search is entered; same rule",
            strategy=bc_search_cases(), n_quick=300, n_thorough=6000, valid=valid, floor=0.4),
    ]


def main():
    return runner.run_check(PROP, legs(env.tier()), level="exploration", assumptions=[
        "Sums is compared with the partition's sums as a multiset (bin order is not part of the statement; index-by-index "
        "alignment is checked inside PartitionAndSumsTuple and PartitionAndSums)",
        "max/min-type outputs of a zero-bin result raising ValueError is accepted (undefined quantity)",
        "ILP: a disagreement that disappears when re-solved with CBC preprocessing off is a solver inconsistency",
        "size envelope per algorithm as in C01 (exponential algorithms stay small)"])
