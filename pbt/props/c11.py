"""
C11 - anytime algorithms are safe to interrupt and only ever improve.
Fault enumeration: every cut-off point of the search is tried with a deterministic counting clock.
"""
from hypothesis import strategies as st

from .. import cases, common, env, oracles, preds, refmodels, runner, strategies as S, sut
from ..runner import Failure, Leg, Result

PROP = "C11"
INF = float("inf")
MAX_CUTS = 400


def cut_offs(T, first, case):
    """All cut-offs first..T+1, or - beyond MAX_CUTS - the first 200, the last 100 and 100 spread by the case's seed."""
    allc = list(range(first, T + 2))
    if len(allc) <= MAX_CUTS:
        return allc, True
    head, tail = allc[:200], allc[-100:]
    mid = allc[200:-100]
    picks = sorted({mid[i % len(mid)] for i in S.splitmix(case.get("cutseed", 0), 100, 0, len(mid) - 1)})
    return head + picks + tail, False


def spec_of(case):
    return (case.get("opts") or {}).get("objective", "diff")


def value_of_result(case, p, res, spec):
    """-> (problems, objective value in 'smaller is better' form or INF for no-solution)."""
    alg = case["alg"]
    if res is None or res == "placeholder":
        return [], INF            # both are explicit no-solution-yet results (today: None from complete greedy, an infinite-sum placeholder from cbldm)
    sums, bins = res
    probs = preds.partition_problems(p, bins, case["numbins"])
    if probs:
        return [("interrupted-result-is-not-a-partition:" + r, d) for r, d in probs], INF
    real = preds.bin_sums(p, bins)
    if list(real) != list(sums):
        return [("interrupted-result-sums-do-not-describe-bins", {"sums": sut.jsonable(sums), "actual": sut.jsonable(real)})], INF
    if alg == "cbldm":
        d = (case.get("opts") or {}).get("partition_difference")
        if d is not None and abs(len(bins[0]) - len(bins[1])) > d:
            return [("interrupted-result-violates-the-cardinality-bound", {"bins": sut.jsonable(bins), "bound": d})], INF
        return [], abs(real[0] - real[1])
    return [], oracles.to_minimize(spec, real)


def evaluate_anytime(case):
    alg, values, k = case["alg"], case["values"], case["numbins"]
    spec = spec_of(case) if alg == "cg" else "diff"
    labels = [f"alg={alg}", f"obj={spec}", f"k={k}", f"pres={case.get('pres', 'list')}"] + S.value_labels(values, k)
    p = sut.present(values, case.get("pres", "list"), case.get("nseed", 0))
    fails = []
    out, T = sut.anytime_call(alg, p, k, case.get("opts"), None)
    runs = 1
    if not out.ok:
        return Result([Failure(f"{PROP}/{alg}/unlimited:exception:{out.exc_type}@{out.where}", out.describe())], labels, False, None,
                      out.describe())
    probs, final_value = value_of_result(case, p, out.value, spec)
    if out.value is None or out.value == "placeholder":
        probs.append(("unlimited-run-returned-no-solution", None))
    fails += [Failure(f"{PROP}/{alg}/unlimited:{r}", {"what": d}) for r, d in probs]
    # with no limit the result is optimal
    if not probs:
        if alg == "cg":
            want = oracles.to_minimize(spec, None) if False else None
            vecs = oracles.sum_vectors(values, k)
            want = min(oracles.to_minimize(spec, s) for s in vecs)
        else:
            want = oracles.opt_balanced(values, (case.get("opts") or {}).get("partition_difference"))
        if final_value != want:
            fails.append(Failure(f"{PROP}/{alg}/unlimited-result-not-optimal", {"got": sut.jsonable(final_value), "optimum": sut.jsonable(want)}))
    if T == 0:
        labels.append("interruption-points=0")      # the algorithm never read the clock: nothing to interrupt (not forbidden)
        return Result(fails, labels, False, None, {"clock_readings": 0}, subcases=runs)
    first = 0 if alg == "cg" else 1                 # a non-positive limit is a ValueError for cbldm by contract
    cuts, complete = cut_offs(T, first, case)
    labels.append("all-cut-offs" if complete else "sampled-cut-offs")
    prev_value, prev_t = INF, None
    first_solution_checked = False
    distinct = set()
    lpt_sums = sorted(sum(b) for b in refmodels.lpt(values, k)) if alg == "cg" else None
    for t in cuts:
        o, _ = sut.anytime_call(alg, p, k, case.get("opts"), t - 0.5)
        runs += 1
        if not o.ok:
            fails.append(Failure(f"{PROP}/{alg}/interrupted:exception:{o.exc_type}@{o.where}", dict(o.describe(), cut_off=t, of=T)))
            break
        probs, v = value_of_result(case, p, o.value, spec)
        if probs:
            fails += [Failure(f"{PROP}/{alg}/{r}", {"what": d, "cut_off": t, "of": T}) for r, d in probs]
            break
        if v > prev_value:
            fails.append(Failure(f"{PROP}/{alg}/result-got-worse-with-a-larger-limit",
                                 {"cut_off": t, "value": sut.jsonable(v), "previous_cut_off": prev_t, "previous_value": sut.jsonable(prev_value)}))
            break
        if v != INF:
            distinct.add(v)
            if alg == "cg" and not first_solution_checked:
                first_solution_checked = True
                sums = sorted(o.value[0])
                h3 = bool((case.get("opts") or {}).get("switches", [1, 1, 0, 1])[2])
                if not h3 and sums != lpt_sums:
                    fails.append(Failure(f"{PROP}/cg/first-solution-is-not-the-greedy-one",
                                         {"cut_off": t, "sums": sut.jsonable(sums), "greedy_sums": sut.jsonable(lpt_sums)}))
                elif h3 and oracles.to_minimize(spec, sums) != oracles.to_minimize(spec, lpt_sums):
                    fails.append(Failure(f"{PROP}/cg/first-solution-worse-or-better-than-the-greedy-one",
                                         {"cut_off": t, "sums": sut.jsonable(sums), "greedy_sums": sut.jsonable(lpt_sums)}))
        prev_value, prev_t = v, t
    else:
        if prev_value != final_value and complete:
            fails.append(Failure(f"{PROP}/{alg}/largest-limit-differs-from-no-limit",
                                 {"value_at_last_cut_off": sut.jsonable(prev_value), "unlimited": sut.jsonable(final_value)}))
    if len(distinct) >= 2:
        labels.append("incumbent-improved-during-search")
    return Result(fails, labels, len(distinct) >= 2, None,
                  {"clock_readings": T, "cut_offs_tried": len(cuts), "distinct_intermediate_values": sorted(map(sut.jsonable, distinct))[:6]},
                  subcases=runs)


def evaluate_generator(case):
    values, k = case["values"], case["numbins"]
    labels = ["alg=ckk-generator", f"k={k}"] + S.value_labels(values, k)
    p = sut.present(values, case.get("pres", "list"), case.get("nseed", 0))
    o = sut.ckk_generator_yields(p, k)
    if not o.ok:
        return Result([Failure(f"{PROP}/ckkgen/exception:{o.exc_type}@{o.where}", o.describe())], labels, False, None, o.describe())
    fails, diffs = [], []
    for idx, y in enumerate(o.value):
        if y is None or y == "placeholder":
            fails.append(Failure(f"{PROP}/ckkgen/yielded-no-partition", {"index": idx}))
            break
        sums, bins = y
        probs = preds.partition_problems(p, bins, k)
        real = preds.bin_sums(p, bins) if not probs else None
        if probs:
            fails += [Failure(f"{PROP}/ckkgen/yielded-not-a-partition:{r}", {"what": d, "index": idx}) for r, d in probs]
            break
        if sorted(real) != sorted(sums):
            fails.append(Failure(f"{PROP}/ckkgen/yielded-sums-do-not-describe-bins", {"index": idx, "sums": sut.jsonable(sums)}))
            break
        diffs.append(max(real) - min(real))
    if not fails:
        if not diffs:
            fails.append(Failure(f"{PROP}/ckkgen/yielded-nothing", {}))
        else:
            if any(diffs[i + 1] >= diffs[i] for i in range(len(diffs) - 1)):
                fails.append(Failure(f"{PROP}/ckkgen/yield-not-strictly-better-than-the-previous", {"differences": sut.jsonable(diffs)}))
            want = oracles.opt(values, k, "diff")
            if diffs[-1] != want:
                fails.append(Failure(f"{PROP}/ckkgen/last-yield-not-optimal", {"differences": sut.jsonable(diffs), "optimum": want}))
    return Result(fails, labels, len(diffs) >= 2, None, {"differences": sut.jsonable(diffs)}, subcases=max(1, len(diffs)))


def evaluate(case):
    if case["alg"] == "ckkgen":
        return evaluate_generator(case)
    return evaluate_anytime(case)


@st.composite
def cg_cases(draw):
    k = draw(st.sampled_from([2, 2, 3, 3, 3, 4, 4, 5, 1]))
    n_max = {1: 6, 2: 9, 3: 8, 4: 7, 5: 6}[k]
    profile, values = draw(S.values_lists(max(2, n_max - 3), n_max, numbins=k,
                                          profiles=["tiny", "small", "medium", "medium", "large", "large", "two-valued", "one-dominant",
                                                    "planted", "planted", "planted", "arithmetic", "near-equal-large", "near-equal-large"]))
    return {"alg": "cg", "values": values, "numbins": k, "pres": draw(st.sampled_from(["list", "list", "dict-str", "dict-int", "names-array"])),
            "nseed": draw(st.integers(0, 5)), "profile": profile, "cutseed": draw(st.integers(0, 2 ** 30)),
            "opts": {"objective": draw(st.sampled_from(S.CG_OBJECTIVES)), "switches": draw(S.switches)}}


@st.composite
def cbldm_cases(draw):
    spread = draw(st.integers(0, 1)) == 0
    if spread:
        # 11-12 evenly spread items: long enough for the first leaf of the search to be clearly worse than a good partition
        n = draw(st.integers(11, 12))
        profile, values = "spread-" + str(n), S.splitmix(draw(st.integers(0, 2 ** 40)), n, 1, draw(st.sampled_from([1000, 1000, 10 ** 5])))
    else:
        profile, values = draw(S.values_lists(2, 10, numbins=2, profiles=["tiny", "small", "small", "medium", "two-valued", "one-dominant",
                                                                          "planted", "skewed", "skewed", "near-equal-large"]))
    case = {"alg": "cbldm", "values": values, "numbins": 2, "pres": draw(st.sampled_from(["list", "list", "dict-str", "dict-int", "names-array"])),
            "nseed": draw(st.integers(0, 5)), "profile": profile, "cutseed": draw(st.integers(0, 2 ** 30))}
    pd = draw(st.sampled_from([None, 1, 2, 2, 3] if spread else [None, None, 1, 1, 2, 3]))
    if pd is not None:
        case["opts"] = {"partition_difference": pd}
    return case


@st.composite
def generator_cases(draw):
    k = draw(st.sampled_from([2, 3, 3, 3, 4, 4, 5]))
    n_max = {2: 10, 3: 9, 4: 8, 5: 7}[k]
    # profiles on which the first Karmarkar-Karp leaf is often not optimal, so that the generator yields more than once
    profile, values = draw(S.values_lists(max(2, n_max - 2), n_max, numbins=k, profiles=["small", "medium", "medium", "large", "one-dominant", "near-equal-large",
                                                                                        "planted", "planted", "planted"]))
    return {"alg": "ckkgen", "values": values, "numbins": k, "pres": draw(st.sampled_from(["list", "dict-str", "names-array"])),
            "nseed": draw(st.integers(0, 5)), "profile": profile}


def valid(case):
    alg = case.get("alg")
    v, k = case.get("values"), case.get("numbins")
    if alg not in ("cg", "cbldm", "ckkgen") or not isinstance(v, list) or not v or not isinstance(k, int) or k < 1:
        return False
    if any((not isinstance(x, int)) or x < 0 for x in v) or sum(v) >= 2 ** 53:
        return False
    if alg == "cbldm":
        return k == 2 and len(v) <= 12
    if alg == "ckkgen":
        return k >= 2 and len(v) <= 10 and k <= 6
    return len(v) <= 10 and k <= 6


def legs(tier):
    return [
        Leg("corpus", evaluate, "committed instances", corpus=common.load_corpus(PROP), valid=valid, shards=2),
        Leg("complete-greedy", evaluate,
            "hypothesis: complete greedy called directly with a contents manager on <=9 items, 1-5 bins, 3 objectives x 16 switch "
            "combinations; a counting clock replaces the module's clock; one unlimited run gives the number T of clock readings, then the "
            "algorithm is re-run for EVERY cut-off t = 0..T+1 (time_limit = t - 1/2; beyond 400 cut-offs: first 200, last 100, 100 "
            "sampled). Oracle per cut-off: None or a complete valid partition whose sums describe its bins; objective value "
            "non-increasing in t; the first solution has the greedy (LPT) sums; the largest limit equals no limit; no limit is "
            "optimal (exhaustive oracle). non-trivial = >= 2 distinct intermediate objective values over the cut-offs",
            strategy=cg_cases(), n_quick=800, n_thorough=6000, valid=valid, floor=0.05, case_timeout=240),
        Leg("cbldm", evaluate,
            "hypothesis: cbldm called directly on <=10 items with default / 1 / 2 / 3 cardinality bound; cut-offs t = 1..T+1; oracle: the "
            "infinite-sum placeholder or a complete valid 2-partition obeying the bound; difference non-increasing in t; no limit is "
            "optimal under the bound (DP oracle); same rule",
            strategy=cbldm_cases(), n_quick=800, n_thorough=5000, valid=valid, floor=0.1, case_timeout=240),
        Leg("ckk-generator", evaluate,
            "hypothesis: the complete Karmarkar-Karp generator on <=10 items, 2-5 bins: every yielded partition is valid (snapshotted "
            "when yielded), differences strictly decreasing, the last one optimal; non-trivial = >= 2 yields",
            strategy=generator_cases(), n_quick=1000, n_thorough=12000, valid=valid, floor=0.04),
    ]


def main():
    oracles.validate_oracles(("partition", "balanced"))
    return runner.run_check(PROP, legs(env.tier()), level="fault_enumeration", assumptions=[
        "the algorithms read the clock through the module attribute `time` (no source hook); time.perf_counter is patched too for the "
        "duration of each call; an algorithm that never reads the clock has no interruption points (reported, not a violation)",
        "complete greedy tests its limit once per expanded node and cbldm at every recursive call: the cut-offs enumerate every value of "
        "the clock reading at which the limit test can fire",
        "with use_heuristic_3 the first solution is compared with greedy on the objective value only"])
