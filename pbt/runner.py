"""
Legs, sharding over processes, collect -> minimise -> replay, evidence, known findings.
"""
import collections
import hashlib
import itertools
import json
import multiprocessing
import os
import signal
import sys
import time
import traceback

from . import env
from .env import HarnessError

# ------------------------------------------------------------------ data

Failure = collections.namedtuple("Failure", "bucket detail")


class Result:
    """What evaluating one case gave."""
    __slots__ = ("failures", "labels", "nontrivial", "inconclusive", "summary", "score", "subcases")

    def __init__(self, failures=None, labels=None, nontrivial=False, inconclusive=None, summary=None, score=None,
                 subcases=1):
        self.failures = failures or []
        self.labels = labels or []
        self.nontrivial = nontrivial
        self.inconclusive = inconclusive      # None or a short reason string
        self.summary = summary                # short JSON-able description of what was observed
        self.score = score                    # optional float for hypothesis.target
        self.subcases = subcases              # number of executions behind this case (e.g. cut-offs of C11)


class Leg:
    def __init__(self, name, evaluate, rule, strategy=None, enum=None, corpus=None, n_quick=0, n_thorough=0,
                 shards=None, valid=None, shrink=None, floor=0.0, target=False, exhaustive=False, scope=None,
                 case_timeout=60, stateful=None):
        self.name = name
        self.evaluate = evaluate          # case -> Result
        self.rule = rule                  # text: how cases are made, what makes one non-trivial
        self.strategy = strategy          # hypothesis strategy of cases, or
        self.enum = enum                  # callable(tier) -> list/iterator of cases (finite scope), or
        self.corpus = corpus              # list of cases
        self.n = {"quick": n_quick, "thorough": n_thorough}
        self.shards = shards
        self.valid = valid or (lambda case: True)
        self.shrink = shrink              # callable(case) -> iterator of candidate smaller cases
        self.floor = floor                # vacuity floor on the non-trivial fraction
        self.target = target
        self.exhaustive = exhaustive      # this leg enumerates its finite scope completely (in this tier)
        self.scope = scope
        self.case_timeout = case_timeout
        self.stateful = stateful          # callable(n, seed, recorder) running a hypothesis state machine


class CaseTimeout(BaseException):
    pass


def _alarm(signum, frame):
    raise CaseTimeout()


def canon(case):
    return json.dumps(case, sort_keys=True, separators=(",", ":"), default=str)


def case_hash(case):
    return int(hashlib.blake2b(canon(case).encode(), digest_size=8).hexdigest(), 16)


def case_size(case):
    return len(canon(case))


# ------------------------------------------------------------------ known findings

def load_known(prop_id):
    """-> (dict bucket -> text for 'known:' lines of this property, list of 'fixed:' lines)"""
    path = os.path.join(env.VERIF_DIR, "known_findings.txt")
    known, fixed = {}, []
    if os.path.exists(path):
        for line in open(path):
            line = line.strip()
            if line.startswith("known:") and f"property={prop_id} " in line:
                head, _, text = line.partition("::")
                key = [t for t in head.split() if t.startswith("key=")]
                if key:
                    known[key[0][4:]] = text.strip()
            elif line.startswith("fixed:") and f"property={prop_id} " in line:
                fixed.append(line)
    return known, fixed


# ------------------------------------------------------------------ recording inside a worker

_RECENT = collections.deque(maxlen=24)      # (leg name, case) evaluated last in THIS worker process, across shards and legs


class Recorder:
    SAMPLE_CAP = 6
    MAX_TIMEOUTS = 3

    def __init__(self, leg, known, task_key=None, skip=frozenset()):
        self.leg = leg
        self.known = known
        self.task_key = task_key        # (leg index, shard): with the running number of the case it names a generated case across runs
        self.skip = skip                # cases during which a worker process died or hung in an earlier round: not evaluated again
        self.caseno = 0
        self.evals = 0
        self.executions = 0
        self.nontrivial = set()
        self.labels = collections.Counter()
        self.samples = []
        self.failures = {}         # bucket -> (size, case, detail)
        self.known_hits = collections.Counter()
        self.known_examples = {}
        self.inconclusive = collections.Counter()
        self.timeouts = collections.Counter()

    def run(self, case):
        leg = self.leg
        # Per-case budget in *CPU* seconds of this process (ITIMER_PROF), so that machine load cannot turn a slow case
        # into a timeout.  A timeout is never a verdict.  After MAX_TIMEOUTS timeouts for one algorithm in one shard the
        # remaining cases of that algorithm are skipped (and counted), which keeps a check bounded when a change makes
        # an algorithm loop forever.
        key = case.get("alg", "-") if isinstance(case, dict) else "-"
        before = list(_RECENT)
        _RECENT.append((leg.name, case))
        self.caseno += 1
        crumb = (self.task_key + (self.caseno,)) if self.task_key else None
        _breadcrumb(crumb)
        if crumb is not None and crumb in self.skip:
            res = Result(inconclusive="worker-process-died-or-hung-on-this-case")
        elif self.timeouts[key] >= self.MAX_TIMEOUTS:
            res = Result(inconclusive="skipped-after-timeouts")
        else:
            signal.signal(signal.SIGPROF, _alarm)
            try:
                signal.setitimer(signal.ITIMER_PROF, leg.case_timeout, 5.0)
                res = leg.evaluate(case)
            except CaseTimeout:
                res = Result(inconclusive="timeout")
                self.timeouts[key] += 1
            finally:
                try:
                    signal.setitimer(signal.ITIMER_PROF, 0)
                except CaseTimeout:
                    signal.setitimer(signal.ITIMER_PROF, 0)
        self.evals += 1
        self.executions += res.subcases
        for lab in res.labels:
            self.labels[lab] += 1
        if res.inconclusive:
            self.inconclusive[res.inconclusive] += 1
        if res.nontrivial:
            h = case_hash(case)
            if h not in self.nontrivial:
                self.nontrivial.add(h)
                if len(self.samples) < self.SAMPLE_CAP:
                    self.samples.append({"leg": leg.name, "case": case, "observed": res.summary})
        for f in res.failures:
            if f.bucket in self.known:
                self.known_hits[f.bucket] += 1
                self.known_examples.setdefault(f.bucket, case)
                continue
            size = case_size(case)
            old = self.failures.get(f.bucket)
            if old is None or size < old[0]:
                self.failures[f.bucket] = (size, case, f.detail, before)
        return res

    def export(self):
        return {
            "leg": self.leg.name, "evals": self.evals, "executions": self.executions,
            "nontrivial": self.nontrivial, "labels": dict(self.labels), "samples": self.samples,
            "failures": {b: (c, d, ctx) for b, (_, c, d, ctx) in self.failures.items()},
            "known_hits": dict(self.known_hits), "known_examples": self.known_examples,
            "inconclusive": dict(self.inconclusive),
        }


# ------------------------------------------------------------------ shard execution

_LEGS = []          # set in the parent before forking
_KNOWN = {}
_PROP = None


def _hyp_settings(n, leg):
    from hypothesis import settings, HealthCheck, Phase, Verbosity
    phases = [Phase.generate]
    if leg.target:
        phases.append(Phase.target)
    return settings(max_examples=max(1, n), database=None, deadline=None, derandomize=False,
                    suppress_health_check=list(HealthCheck), phases=phases, report_multiple_bugs=False,
                    verbosity=Verbosity.quiet)


def limit_memory():
    """Cap the address space of a worker (default 6 GB, VERIF_MEM_GB): a runaway allocation then ends in a MemoryError in that
    worker (a harness error, exit 2) instead of exhausting the machine."""
    try:
        import resource
        gb = float(os.environ.get("VERIF_MEM_GB", "6"))
        lim = int(gb * 2 ** 30)
        soft, hard = resource.getrlimit(resource.RLIMIT_AS)
        if hard == resource.RLIM_INFINITY or lim < hard:
            resource.setrlimit(resource.RLIMIT_AS, (lim, hard))
    except Exception:
        pass


# ---- worker bookkeeping shared with the driver: which generated case every worker is evaluating, and since when

_CRUMBS = None      # multiprocessing.Array('q', 5 * slots): pid, leg index, shard, case number (0 = between cases), start time
_SLOT = None


def _init_worker(crumbs, counter):
    global _CRUMBS, _SLOT
    _CRUMBS = crumbs
    with counter.get_lock():
        _SLOT = counter.value
        counter.value += 1
    if _SLOT * 5 + 4 < len(crumbs):
        crumbs[_SLOT * 5] = os.getpid()


def _breadcrumb(crumb):
    if _CRUMBS is None or _SLOT is None or _SLOT * 5 + 4 >= len(_CRUMBS):
        return
    b = _SLOT * 5
    if crumb is None:
        _CRUMBS[b + 3] = 0
    else:
        _CRUMBS[b + 1], _CRUMBS[b + 2], _CRUMBS[b + 3], _CRUMBS[b + 4] = crumb[0], crumb[1], crumb[2], int(time.time())


def run_shard(task):
    leg_index, shard, nshards, n, tier = task[:5]
    skip = task[5] if len(task) > 5 else frozenset()
    limit_memory()
    leg = _LEGS[leg_index]
    rec = Recorder(leg, _KNOWN, (leg_index, shard), skip)
    t0 = time.time()
    try:
        if leg.stateful is not None:
            leg.stateful(n, env.derive_seed(_PROP, leg.name, shard), rec, tier)
        elif leg.strategy is not None:
            import hypothesis
            from hypothesis import given

            @hypothesis.seed(env.derive_seed(_PROP, leg.name, shard))
            @_hyp_settings(n, leg)
            @given(leg.strategy)
            def test(case):
                res = rec.run(case)
                if leg.target and res.score is not None:
                    hypothesis.target(float(res.score))
            test()
        elif leg.enum is not None:
            for i, case in enumerate(leg.enum(tier)):
                if i % nshards == shard:
                    rec.run(case)
        elif leg.corpus is not None:
            for i, case in enumerate(leg.corpus):
                if i % nshards == shard:
                    rec.run(case)
        out = rec.export()
        out["error"] = None
    except BaseException:
        out = rec.export()
        out["error"] = f"leg {leg.name} shard {shard}:\n" + traceback.format_exc()
    out["wall"] = time.time() - t0
    _breadcrumb(None)
    return out


def run_tasks(tasks, legs):
    """Run the shards on a pool of forked workers that survives the death of a worker.  A worker can die (the solver library aborts, a
    segmentation fault in C code under a changed tree) or hang without using CPU (a deadlock inside the solver, which the CPU-time budget
    of a case cannot see).  multiprocessing.Pool then waits forever.  Here every worker leaves a breadcrumb naming the generated case it is
    evaluating; a worker that stays on one case for longer than the wall-clock backstop is killed; when a worker is lost the unfinished
    shards are run again with those cases skipped (counted as inconclusive).  Returns (results, lost_cases)."""
    from concurrent.futures import ProcessPoolExecutor, wait, FIRST_COMPLETED
    from concurrent.futures.process import BrokenProcessPool
    ctx = multiprocessing.get_context("fork")
    nworkers = min(env.jobs(), max(1, len(tasks)))
    results, skip, pending = [], set(), list(tasks)
    stall = float(os.environ.get("VERIF_STALL_S") or max([900.0] + [3.0 * l.case_timeout for l in legs]))
    for attempt in range(6):
        if not pending:
            break
        crumbs = ctx.Array("q", 5 * nworkers, lock=False)
        counter = ctx.Value("i", 0)
        ex = ProcessPoolExecutor(max_workers=nworkers, mp_context=ctx, initializer=_init_worker, initargs=(crumbs, counter))
        futs = {ex.submit(run_shard, tuple(t[:5]) + (frozenset(skip),)): t for t in pending}
        finished, broken, killed = set(), False, set()
        try:
            todo = set(futs)
            while todo and not broken:
                done, todo = wait(todo, timeout=20, return_when=FIRST_COMPLETED)
                for f in done:
                    try:
                        results.append(f.result())
                        finished.add(futs[f])
                    except BrokenProcessPool:
                        broken = True
                now = time.time()
                for w in range(nworkers):          # wall-clock backstop: a case that makes no progress and burns no CPU
                    b = w * 5
                    if crumbs[b] and crumbs[b + 3] and now - crumbs[b + 4] > stall and crumbs[b] not in killed:
                        killed.add(crumbs[b])
                        skip.add((crumbs[b + 1], crumbs[b + 2], crumbs[b + 3]))
                        try:
                            os.kill(crumbs[b], signal.SIGKILL)
                        except OSError:
                            pass
        finally:
            procs = dict(getattr(ex, "_processes", None) or {})
            ex.shutdown(wait=True, cancel_futures=True)
        pending = [t for t in pending if t not in finished]
        if not pending:
            break
        # which cases were being evaluated by the workers that died on their own (not the ones the executor terminated afterwards)
        suspects = set()
        for w in range(nworkers):
            b = w * 5
            if not crumbs[b] or not crumbs[b + 3]:
                continue
            proc = procs.get(crumbs[b])
            code = getattr(proc, "exitcode", None)
            if crumbs[b] in killed or code not in (None, 0, -signal.SIGTERM):
                suspects.add((crumbs[b + 1], crumbs[b + 2], crumbs[b + 3]))
        if not suspects:                           # could not tell: skip every case that was being evaluated when the pool broke
            suspects = {(crumbs[w * 5 + 1], crumbs[w * 5 + 2], crumbs[w * 5 + 3]) for w in range(nworkers) if crumbs[w * 5] and crumbs[w * 5 + 3]}
        if suspects <= skip and not killed:
            break                                  # no progress possible
        skip |= suspects
    for t in pending:
        results.append({"leg": legs[t[0]].name, "evals": 0, "executions": 0, "nontrivial": set(), "labels": {}, "samples": [], "failures": {},
                        "known_hits": {}, "known_examples": {}, "inconclusive": {}, "wall": 0.0,
                        "error": f"leg {legs[t[0]].name} shard {t[1]}: its worker process died or hung repeatedly"})
    return results, sorted(skip)


# ------------------------------------------------------------------ minimisation

def generic_shrink(case):
    """Candidate simpler cases, most aggressive first."""
    for key in ("values", "sums", "ops"):
        if isinstance(case.get(key), list):
            vals = case[key]
            n = len(vals)
            size = n // 2
            while size >= 1:
                for start in range(0, n, size):
                    cand = dict(case)
                    cand[key] = vals[:start] + vals[start + size:]
                    if cand[key] != vals:
                        yield cand
                size //= 2
    for key in ("numbins", "binsize", "nseed", "k", "remaining", "lo", "hi", "d"):
        v = case.get(key)
        if isinstance(v, int) and not isinstance(v, bool):
            for c in sorted({0, 1, 2, v // 2, v - 1}):
                if 0 <= c < v:
                    cand = dict(case)
                    cand[key] = c
                    yield cand
    if case.get("pres") not in (None, "list"):
        cand = dict(case)
        cand["pres"] = "list"
        yield cand
    for key in ("values", "sums"):
        if isinstance(case.get(key), list) and all(isinstance(v, int) for v in case[key]):
            vals = case[key]
            for i, v in enumerate(vals):
                for c in sorted({0, 1, v // 2, v - 1}):
                    if 0 <= c < v:
                        cand = dict(case)
                        cand[key] = vals[:i] + [c] + vals[i + 1:]
                        yield cand


def minimise(leg, case, bucket, budget_s=25.0):
    """Deterministic greedy delta-debugging: keep a candidate only if it still fails in the same bucket."""
    deadline = time.time() + budget_s
    shrink = leg.shrink or generic_shrink
    best = case
    detail = None
    improved = True
    steps = 0
    while improved and time.time() < deadline:
        improved = False
        for cand in shrink(best):
            if time.time() > deadline:
                break
            try:
                if not leg.valid(cand):
                    continue
                signal.signal(signal.SIGPROF, _alarm)
                try:
                    signal.setitimer(signal.ITIMER_PROF, min(leg.case_timeout, 20), 5.0)
                    res = leg.evaluate(cand)
                finally:
                    try:
                        signal.setitimer(signal.ITIMER_PROF, 0)
                    except CaseTimeout:
                        signal.setitimer(signal.ITIMER_PROF, 0)
            except (CaseTimeout, Exception):
                continue
            hit = [f for f in res.failures if f.bucket == bucket]
            if hit and case_size(cand) <= case_size(best) and canon(cand) != canon(best):
                best, detail, improved = cand, hit[0].detail, True
                steps += 1
                break
    return best, detail, steps


# ------------------------------------------------------------------ the check driver

def plan_tasks(legs, tier):
    tasks = []
    jobs = env.jobs()
    for li, leg in enumerate(legs):
        if leg.strategy is not None or leg.stateful is not None:
            total = int(leg.n[tier] * env.scale())
            if total <= 0:
                continue
            nshards = leg.shards or min(jobs, max(1, total // 50))
            per = max(1, total // nshards)
            for s in range(nshards):
                tasks.append((li, s, nshards, per, tier))
        else:
            nshards = leg.shards or jobs
            for s in range(nshards):
                tasks.append((li, s, nshards, 0, tier))
    return tasks


def run_check(prop_id, legs, level="exploration", tier=None, assumptions=None, extra_coverage=None):
    """Run all legs, write evidence, print verdict lines.  Returns the exit code."""
    global _LEGS, _KNOWN, _PROP
    tier = tier or env.tier()
    t0 = time.time()
    known, fixed = load_known(prop_id)
    legs = [l for l in legs if l is not None]
    _LEGS, _KNOWN, _PROP = legs, known, prop_id
    tasks = plan_tasks(legs, tier)
    lost_cases = []
    if env.jobs() == 1:
        results = [run_shard(t) for t in tasks]
    else:
        results, lost_cases = run_tasks(tasks, legs)

    errors = [r["error"] for r in results if r["error"]]
    per_leg = collections.OrderedDict((l.name, {"evaluations": 0, "executions": 0, "nontrivial": set(), "wall_cpu_s": 0.0})
                                      for l in legs)
    labels = collections.Counter()
    inconclusive = collections.Counter()
    known_hits = collections.Counter()
    known_examples = {}
    samples = []
    failures = {}     # bucket -> (leg name, case, detail)
    for r in sorted(results, key=lambda r: r["leg"]):
        pl = per_leg[r["leg"]]
        pl["evaluations"] += r["evals"]
        pl["executions"] += r["executions"]
        pl["nontrivial"] |= r["nontrivial"]
        pl["wall_cpu_s"] += r["wall"]
        labels.update({f'{r["leg"]}:{k}': v for k, v in r["labels"].items()})
        inconclusive.update(r["inconclusive"])
        known_hits.update(r["known_hits"])
        for b, c in r["known_examples"].items():
            known_examples.setdefault(b, c)
        samples.extend(r["samples"])
        for b, (case, detail, context) in r["failures"].items():
            old = failures.get(b)
            if old is None or case_size(case) < case_size(old[1]):
                failures[b] = (r["leg"], case, detail, context)

    if errors:
        print(f"HARNESS-ERROR property={prop_id}: {len(errors)} shard(s) failed outside an evaluator", flush=True)
        print(errors[0], flush=True)
        return 2

    # vacuity floors
    for leg in legs:
        pl = per_leg[leg.name]
        if leg.floor and pl["evaluations"] >= 50 and not failures:      # a leg that found violations may stop cases early
            frac = len(pl["nontrivial"]) / pl["evaluations"]
            if frac < leg.floor:
                print(f"HARNESS-ERROR property={prop_id}: leg {leg.name} produced only {frac:.1%} non-trivial cases "
                      f"(floor {leg.floor:.0%}) - generator problem, not a verdict", flush=True)
                return 2

    # minimise and write replays
    legs_by_name = {l.name: l for l in legs}
    replay_dir = os.path.join(env.OUT_DIR, "replays")
    violations = []
    for bucket in sorted(failures):
        leg_name, case, detail, context = failures[bucket]
        leg = legs_by_name[leg_name]
        small, d2, steps = minimise(leg, case, bucket, budget_s=(min(25.0, 75.0 / len(failures)) if tier == "quick"
                                                                 else min(60.0, 300.0 / len(failures))))
        if d2 is not None:
            detail = d2
        os.makedirs(replay_dir, exist_ok=True)
        tag = hashlib.sha1((bucket + canon(small)).encode()).hexdigest()[:10]
        safe = "".join(ch if ch.isalnum() or ch in "-_." else "_" for ch in bucket)[:80]
        path = os.path.join(replay_dir, f"{safe}-{tag}.json")
        with open(path, "w") as f:
            json.dump({"property": prop_id, "leg": leg_name, "bucket": bucket, "case": small, "detail": detail,
                       "original_case": case, "minimisation_steps": steps, "seed": env.seed(), "tier": tier},
                      f, indent=1, sort_keys=True, default=str)
        note = None
        if len(violations) < 8:
            path, note = confirm_in_fresh_process(prop_id, path, bucket, context, budget_s=45.0 if tier == "quick" else 120.0)
        violations.append((bucket, path, small, detail, note))

    # evidence
    evaluations = sum(pl["evaluations"] for pl in per_leg.values())
    all_nontrivial = set()
    for name, pl in per_leg.items():
        all_nontrivial |= {(name, h) for h in pl["nontrivial"]}
    # a fixed-size, deterministic selection of samples spread over the legs
    samples.sort(key=lambda s: (s["leg"], canon(s["case"])))
    picked, seen_legs = [], collections.Counter()
    for s in samples:
        if seen_legs[s["leg"]] < 2:
            picked.append(s)
            seen_legs[s["leg"]] += 1
    coverage = {
        "evaluations": evaluations,
        "executions": sum(pl["executions"] for pl in per_leg.values()),
        "distinct_nontrivial": len(all_nontrivial),
        "rule": " || ".join(f"[{l.name}] {l.rule}" for l in legs),
        "samples": picked[:12],
        "legs": {name: {"evaluations": pl["evaluations"], "executions": pl["executions"],
                        "distinct_nontrivial": len(pl["nontrivial"]), "cpu_s": round(pl["wall_cpu_s"], 2),
                        "exhaustive": bool(legs_by_name[name].exhaustive and (tier == "thorough" or legs_by_name[name].exhaustive == "both")),
                        "scope": legs_by_name[name].scope}
                 for name, pl in per_leg.items()},
        "labels": dict(sorted(labels.items())),
        "inconclusive": dict(inconclusive),
        "cases_lost_to_dead_or_hung_workers": len(lost_cases),
        "known_findings_confirmed": dict(known_hits),
        "fixed_defects_replayed": len(fixed),
        "violating_buckets": [b for b, _, _, _, _ in violations],
        "exhaustive": False,
    }
    if extra_coverage:
        coverage.update(extra_coverage)
    evidence = {
        "property_id": prop_id, "tier": tier, "seed": env.seed(), "level": level, "coverage": coverage,
        "assumptions": assumptions or [], "wall_s": round(time.time() - t0, 2), "violations": len(violations),
    }
    os.makedirs(os.path.join(env.OUT_DIR, "evidence"), exist_ok=True)
    with open(os.path.join(env.OUT_DIR, "evidence", f"{prop_id}.json"), "w") as f:
        json.dump(evidence, f, indent=1, sort_keys=True, default=str)

    for bucket, n in sorted(known_hits.items()):
        print(f"KNOWN-FINDING: property={prop_id} {bucket}: {known[bucket]} (reproduced on {n} generated cases, e.g. "
              f"{canon(known_examples[bucket])[:200]})", flush=True)
    for bucket, path, small, detail, note in violations:
        print(f"VIOLATION property={prop_id} replay={path}", flush=True)
        print(f"  bucket={bucket} case={canon(small)[:400]}", flush=True)
        if note:
            print(f"  note={note}", flush=True)
        print(f"  detail={json.dumps(detail, default=str)[:600]}", flush=True)
    if lost_cases:
        print(f"NOTE property={prop_id}: a worker process died or hung (no CPU use) while evaluating {len(lost_cases)} generated case(s) "
              f"{[legs[a].name + '/shard' + str(b) + '/case' + str(c) for a, b, c in lost_cases][:4]}; those cases were skipped on the "
              f"re-run of their shards and are inconclusive, not verdicts", flush=True)
    if inconclusive.get("timeout") or inconclusive.get("skipped-after-timeouts"):
        print(f"NOTE property={prop_id}: {inconclusive.get('timeout', 0)} case(s) exceeded their CPU budget and "
              f"{inconclusive.get('skipped-after-timeouts', 0)} were skipped after repeated timeouts of the same algorithm; "
              f"these are inconclusive, not verdicts", flush=True)
    print(f"{prop_id} tier={tier} seed={env.seed()} evaluations={evaluations} executions={coverage['executions']} "
          f"distinct_nontrivial={len(all_nontrivial)} inconclusive={sum(inconclusive.values())} "
          f"violations={len(violations)} wall={evidence['wall_s']}s", flush=True)
    return 1 if violations else 0


def _replay_exit(prop_id, path):
    """Exit code of `check <ID> --replay path` in a brand-new interpreter (1 = the saved input fails there too)."""
    import subprocess
    check = os.path.join(os.path.dirname(os.path.dirname(os.path.abspath(__file__))), "check")
    try:
        return subprocess.run([sys.executable, check, prop_id, "--replay", path], capture_output=True, text=True, timeout=300).returncode
    except subprocess.TimeoutExpired:
        return 2


def confirm_in_fresh_process(prop_id, path, bucket, context, budget_s):
    """A replay file must reproduce from a fresh interpreter.  If the saved case alone does not fail there, the failure depended on state
    that EARLIER cases left in the worker process (a cache, a memo, a counter that survives a call): then the cases evaluated before it
    in that worker are put in front of it, the sequence is confirmed in a fresh interpreter, reduced (delta debugging, every trial a fresh
    interpreter) and saved as the replay.  Returns (path of the replay to report, note or None)."""
    if _replay_exit(prop_id, path) == 1:
        return path, None
    data = json.load(open(path))
    seq = [{"leg": ln, "case": c} for ln, c in context]
    seq_path = path[:-5] + "-sequence.json"

    def fails(sequence):
        with open(seq_path, "w") as f:
            json.dump(dict(data, sequence=sequence), f, indent=1, sort_keys=True, default=str)
        return _replay_exit(prop_id, seq_path) == 1
    if not seq or not fails(seq):
        if os.path.exists(seq_path):
            os.remove(seq_path)
        return path, ("observed once during the run but NOT reproduced in a fresh interpreter, neither alone nor after the "
                      f"{len(seq)} cases that preceded it in its worker process")
    deadline = time.time() + budget_s
    chunk = max(1, len(seq) // 2)
    while chunk >= 1 and time.time() < deadline:
        i, shrunk = 0, False
        while i < len(seq) and time.time() < deadline:
            cand = seq[:i] + seq[i + chunk:]
            if fails(cand):
                seq, shrunk = cand, True
            else:
                i += chunk
        if chunk == 1 and not shrunk:
            break
        chunk = chunk // 2 if not shrunk or chunk > 1 else 1
    fails(seq)          # leave the reduced sequence in the file
    return seq_path, (f"the case fails only after {len(seq)} earlier case(s) in the same process (state survives between calls); the replay "
                      "file holds that sequence")


def replay(prop_id, legs, path):
    """Re-evaluate a saved case (or a saved sequence of cases ending in it) without Hypothesis."""
    data = json.load(open(path))
    legs = [l for l in legs if l is not None]
    leg = next((l for l in legs if l.name == data.get("leg")), None)
    if leg is None:
        print(f"HARNESS-ERROR: replay file names leg {data.get('leg')} which property {prop_id} does not have")
        return 2
    known, _ = load_known(prop_id)
    for step in data.get("sequence", []):
        before = next((l for l in legs if l.name == step.get("leg")), None)
        if before is not None:
            try:
                before.evaluate(step["case"])
            except Exception:
                pass
    res = leg.evaluate(data["case"])
    fails = [f for f in res.failures if f.bucket not in known]
    for f in res.failures:
        if f.bucket in known:
            print(f"KNOWN-FINDING: property={prop_id} {f.bucket}: {known[f.bucket]}")
    if fails:
        for f in fails:
            print(f"VIOLATION property={prop_id} replay={path}")
            print(f"  bucket={f.bucket} detail={json.dumps(f.detail, default=str)[:800]}")
        return 1
    print(f"{prop_id}: replayed case passes: {canon(data['case'])[:300]} -> {json.dumps(res.summary, default=str)[:300]}")
    return 0
