"""
Case strategies shared by several properties: "some algorithm called on some in-domain input".

The size envelope per algorithm is imposed by the running time of the algorithm and of the oracle
(exponential search), not by any limit the code states.
"""
from hypothesis import strategies as st

from . import strategies as S

HEURISTIC_PARTITIONERS = ["greedy", "roundrobin", "multifit", "kk"]
EXACT_PARTITIONERS = ["cg", "ckk", "snp", "rnp", "dp", "ilp"]
ALL_PARTITIONERS = HEURISTIC_PARTITIONERS + EXACT_PARTITIONERS + ["cbldm"]
PACKERS = ["ff", "ffd", "bf", "bfd", "bc"]
COVERERS = ["decreasing", "twothirds", "threequarters"]

RNP_MAX_BINS = 5       # known finding C01/rnp/numbins>=6: main legs stay below it and count the exclusion


def max_items(alg, k, oracle=False):
    """Largest number of items for which `alg` with k bins (and, if oracle, the exhaustive oracle) stays cheap."""
    if alg in HEURISTIC_PARTITIONERS:
        n = 40
    elif alg == "cbldm":
        n = 12
    elif alg == "cg":
        n = {1: 10, 2: 10, 3: 8, 4: 7, 5: 6, 6: 5}.get(k, 5)
    elif alg == "dp":
        n = {1: 10, 2: 10, 3: 8, 4: 6, 5: 5, 6: 5}.get(k, 4)
    elif alg == "ilp":
        n = 7
    elif alg == "rnp":      # cheap enough for 10-11 items (its recursion only gets interesting from about 10 items on)
        n = {1: 10, 2: 11, 3: 11, 4: 10, 5: 9}.get(k, 6)
    else:   # ckk, snp
        n = {1: 10, 2: 12, 3: 10, 4: 8, 5: 7, 6: 6}.get(k, 6)
    if oracle:
        n = min(n, {1: 10, 2: 10, 3: 10, 4: 9, 5: 8, 6: 7}.get(k, 7))
    return n


@st.composite
def partition_cases(draw, algs=None, presentations=None, oracle=False, max_bins=6, profiles=None, min_bins=1,
                    with_opts=True, max_len=None):
    alg = draw(st.sampled_from(algs or ALL_PARTITIONERS))
    if alg == "cbldm":
        k = 2
    elif alg == "rnp":
        k = draw(S.bin_counts(min_bins, min(max_bins, RNP_MAX_BINS)))
    elif alg == "ilp":
        k = draw(S.bin_counts(min_bins, min(max_bins, 4)))
    else:
        k = draw(S.bin_counts(min_bins, max_bins))
    n_max = max_items(alg, k, oracle)
    if max_len:
        n_max = min(n_max, max_len)
    cap = 200 if alg == "ilp" else None
    profs = profiles
    if alg == "ilp":
        profs = [p for p in (profiles or S.PROFILES) if p not in ("large", "huge", "near-equal-large")]
    if alg == "multifit":
        # multifit bisects on floats: keep sums exactly representable with headroom
        profs = [p for p in (profiles or S.PROFILES) if p not in ("huge", "near-equal-large")]
    profile, values = draw(S.values_lists(1, n_max, numbins=k, profiles=profs, max_value=cap))
    case = {"alg": alg, "values": values, "numbins": k, "pres": draw(S.presentations(presentations)),
            "nseed": draw(st.integers(0, 5)), "profile": profile}
    if with_opts:
        opts = {}
        if alg == "cg":
            opts["objective"] = draw(st.sampled_from(S.CG_OBJECTIVES))
            opts["switches"] = draw(S.switches)
        elif alg in ("dp", "ilp"):
            opts["objective"] = draw(S.objective_specs(k))
        elif alg == "multifit":
            opts["iterations"] = draw(st.sampled_from([1, 2, 3, 5, 8, 10, 12]))
        elif alg == "cbldm":
            pd = draw(st.sampled_from([None, None, 1, 2, 3]))
            if pd is not None:
                opts["partition_difference"] = pd
        if opts and draw(st.integers(0, 7)) == 0:
            opts = {}                  # the library's own defaults (default objective = difference, default switches, default iterations)
        if opts:
            case["opts"] = opts
    return case


@st.composite
def packing_cases(draw, algs=None, presentations=None, max_len=12, eighths=True, allow_zero=True):
    alg = draw(st.sampled_from(algs or PACKERS))
    C = draw(S.binsizes())
    n_max = max_len if alg != "bc" else min(max_len, 11)
    profile, values = draw(S.packing_values(C, 1, n_max, allow_zero=allow_zero))
    case = {"alg": alg, "values": values, "binsize": C, "pres": draw(S.presentations(presentations)),
            "nseed": draw(st.integers(0, 5)), "profile": profile}
    if draw(st.integers(0, 6)) == 0:
        magnify(draw, case, allow_zero)
    elif eighths and alg != "bc" and draw(st.integers(0, 4)) == 0:
        case["den"] = 8          # the same integers read as multiples of 1/8 (exactly representable)
    return case


def magnify(draw, case, allow_zero=True, cover=False):
    """The same instance at a large magnitude: bin size and values times M (10^6 .. 2^38), each value then moved by -1, 0 or +1
    unit.  Sums that were exactly at the bin size are now one unit (a relative 1e-7 .. 1e-12) above or below it - the
    region where a tolerance in a comparison shows.  All sums stay far below 2^53."""
    M = draw(st.sampled_from([10 ** 6, 10 ** 9, 2 ** 30, 10 ** 10, 2 ** 38]))
    C = case["binsize"] * M
    deltas = S.splitmix(draw(st.integers(0, 2 ** 40)), len(case["values"]), 0, 5)
    vals = []
    for v, d in zip(case["values"], deltas):
        x = v * M + {0: -1, 1: 1}.get(d, 0)
        x = max(0 if allow_zero else 1, x)
        vals.append(x if cover else min(x, C))
    case["values"], case["binsize"] = vals, C
    case["profile"] = case.get("profile", "-") + "*M"
    return case


@st.composite
def covering_cases(draw, algs=None, presentations=None, max_len=14):
    alg = draw(st.sampled_from(algs or COVERERS))
    C = draw(S.binsizes())
    profile, values = draw(S.covering_values(C, 1, max_len))
    case = {"alg": alg, "values": values, "binsize": C, "pres": draw(S.presentations(presentations)),
            "nseed": draw(st.integers(0, 5)), "profile": profile}
    if draw(st.integers(0, 6)) == 0:
        magnify(draw, case, allow_zero=False, cover=True)
    return case


def valid_partition_case(case):
    v = case.get("values")
    if not isinstance(v, list) or not v or any((not isinstance(x, int)) or x < 0 for x in v):
        return False
    k = case.get("numbins")
    if not isinstance(k, int) or k < 1:
        return False
    alg = case["alg"]
    if alg == "cbldm" and k != 2:
        return False
    if alg == "rnp" and k > RNP_MAX_BINS and not case.get("known_region"):
        return False
    if alg == "ilp" and (max(v) > 200 or k > 4):
        return False
    if sum(v) >= 2 ** 53:
        return False
    return len(v) <= max_items(alg, k) + 2


def valid_packing_case(case):
    v, C = case.get("values"), case.get("binsize")
    if not isinstance(C, int) or C < 1:
        return False
    if not isinstance(v, list) or not v:
        return False
    return all(isinstance(x, int) and 0 <= x <= C for x in v)


def valid_covering_case(case):
    v, C = case.get("values"), case.get("binsize")
    if not isinstance(C, int) or C < 1:
        return False
    if not isinstance(v, list) or not v:
        return False
    return all(isinstance(x, int) and x >= 1 for x in v)


# ------------------------------------------------------------------ large inputs for the cheap heuristics

LARGE_HEURISTICS = ["greedy", "kk", "roundrobin", "multifit", "ff", "ffd", "bf", "bfd", "decreasing", "twothirds", "threequarters"]


@st.composite
def large_heuristic_cases(draw, presentations=None, algs=None):
    """The eleven cheap heuristics on 40-303 items (sizes around powers of two included), partitioners with 2-40 bins: far beyond the
    sizes the exact oracles allow, for the predicates that need no optimum."""
    alg = draw(st.sampled_from(algs or LARGE_HEURISTICS))
    pres = draw(st.sampled_from(presentations or ["list", "list", "array", "dict-str", "dict-int", "names", "names-array", "dict-mixed"]))
    n = draw(st.sampled_from([40, 64, 65, 100, 128, 129, 200, 256, 257, 300])) + draw(st.integers(0, 3))
    seed = draw(st.integers(0, 2 ** 40))
    case = {"alg": alg, "pres": pres, "nseed": draw(st.integers(0, 5))}
    if alg in ("greedy", "kk", "roundrobin", "multifit"):
        hi = draw(st.sampled_from([9, 1000, 10 ** 6]))
        case.update(values=S.splitmix(seed, n, 0 if seed % 4 == 0 else 1, hi), numbins=draw(st.sampled_from([2, 3, 7, 8, 9, 16, 17, 32, 33, 40])),
                    profile=f"large-uniform-{hi}")
        return case
    C = draw(st.sampled_from([10, 12, 30, 100, 101, 1000]))
    if alg in ("ff", "ffd", "bf", "bfd"):
        style = draw(st.sampled_from(["uniform", "small", "big", "few-values"]))
        lo, hi = {"uniform": (0 if seed % 4 == 0 else 1, C), "small": (1, max(1, C // 3)), "big": (C // 3, C), "few-values": (1, C)}[style]
        values = S.splitmix(seed, n, lo, hi)
        if style == "few-values":
            pool = S.splitmix(seed + 1, 3, 1, C)
            values = [pool[i] for i in S.splitmix(seed, n, 0, 2)]
    else:
        style = draw(st.sampled_from(["uniform", "small", "classes", "with-big"]))
        if style == "classes":
            pool = sorted({x for x in (C // 2 - 1, C // 2, C // 2 + 1, C // 3 - 1, C // 3, C // 3 + 1, 1, 2, C - 1, C) if x >= 1})
            values = [pool[i] for i in S.splitmix(seed, n, 0, len(pool) - 1)]
        else:
            lo, hi = {"uniform": (1, C), "small": (1, max(1, C // 4)), "with-big": (1, 2 * C)}[style]
            values = S.splitmix(seed, n, lo, hi)
    case.update(values=values, binsize=C, profile="large-" + style)
    return case


def valid_large_case(case):
    v, alg = case.get("values"), case.get("alg")
    if alg not in LARGE_HEURISTICS or not isinstance(v, list) or not (1 <= len(v) <= 400) or not all(isinstance(x, int) and x >= 0 for x in v):
        return False
    if alg in ("greedy", "kk", "roundrobin", "multifit"):
        return isinstance(case.get("numbins"), int) and 1 <= case["numbins"] <= 64 and sum(v) < 2 ** 53
    if alg in ("ff", "ffd", "bf", "bfd"):
        return valid_packing_case(case)
    return valid_covering_case(case)
