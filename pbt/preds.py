"""
Validity predicates over returned bins (lists of lists of normalised names).
Each returns a list of (reason, detail) pairs; empty list = valid.
"""
from collections import Counter


def multiset_diff(presented, bins):
    got = Counter(x for b in bins for x in b)
    want = Counter(presented.names)
    lost = want - got
    extra = got - want
    return lost, extra


def _short(counter):
    return sorted(((str(k), v) for k, v in counter.items()))[:6]


def partition_problems(presented, bins, numbins, may_return_fewer=False):
    probs = []
    if bins is None:
        return [("missing-result", "None")]
    lost, extra = multiset_diff(presented, bins)
    if lost:
        probs.append(("item-lost", _short(lost)))
    if extra:
        probs.append(("item-invented-or-duplicated", _short(extra)))
    if may_return_fewer:
        if not (1 <= len(bins) <= numbins):
            probs.append(("wrong-number-of-bins", f"{len(bins)} for numbins={numbins} (multifit: 1..numbins allowed)"))
    elif len(bins) != numbins:
        probs.append(("wrong-number-of-bins", f"{len(bins)} for numbins={numbins}"))
    return probs


def bin_sums(presented, bins):
    return [sum(presented.value(x) for x in b) for b in bins]


def packing_problems(presented, bins, binsize, may_drop_zeros=False):
    probs = []
    if bins is None:
        return [("missing-result", "None")]
    names_known = set(presented.names)
    unknown = [x for b in bins for x in b if x not in names_known]
    if unknown:
        return [("item-invented-or-duplicated", [str(u) for u in unknown[:6]])]
    lost, extra = multiset_diff(presented, bins)
    if may_drop_zeros:
        lost = Counter({k: v for k, v in lost.items() if presented.value(k) != 0})
    if lost:
        probs.append(("item-lost", _short(lost)))
    if extra:
        probs.append(("item-invented-or-duplicated", _short(extra)))
    sums = bin_sums(presented, bins)
    over = [s for s in sums if s > binsize]
    if over:
        probs.append(("bin-overfull", [str(s) for s in over[:4]]))
    if presented.names and any(len(b) == 0 for b in bins):
        probs.append(("empty-bin", f"{sum(1 for b in bins if not b)} empty of {len(bins)}"))
    return probs


def cover_problems(presented, bins, binsize):
    probs = []
    if bins is None:
        return [("missing-result", "None")]
    names_known = set(presented.names)
    unknown = [x for b in bins for x in b if x not in names_known]
    if unknown:
        return [("item-invented", [str(u) for u in unknown[:6]])]
    _, extra = multiset_diff(presented, bins)
    if extra:
        probs.append(("item-used-twice", _short(extra)))
    sums = bin_sums(presented, bins)
    under = [s for s in sums if s < binsize]
    if under:
        probs.append(("bin-not-covered", [str(s) for s in under[:4]]))
    used = Counter(x for b in bins for x in b)
    unused = Counter(presented.names) - used
    waste = sum(presented.value(k) * v for k, v in unused.items())
    if waste >= binsize:
        probs.append(("waste-at-least-one-bin", str(waste)))
    return probs
