"""
Helpers shared by the property modules.
"""
import glob
import json
import os

from . import env, sut
from .runner import Failure


def exception_bucket(prop, alg, outcome):
    return f"{prop}/{alg}/exception:{outcome.exc_type}@{outcome.where}"


def load_corpus(prop, leg=None):
    """Committed regression cases of a property: corpus/<ID>/*.json, each {"leg":..., "case":..., "note":...}."""
    cases = []
    for path in sorted(glob.glob(os.path.join(env.VERIF_DIR, "corpus", prop, "*.json"))):
        data = json.load(open(path))
        entries = data if isinstance(data, list) else [data]
        for e in entries:
            if leg is None or e.get("leg", leg) == leg:
                cases.append(e["case"])
    return cases


RNP_KNOWN_BUCKET = "rnp/numbins>=6"


def rnp_known(prop, case, outcome):
    """The known finding: rnp raises IndexError / ValueError / TypeError inside its own recursion for >= 6 bins."""
    return (case.get("alg") == "rnp" and case.get("numbins", 0) >= 6 and not outcome.ok
            and outcome.exc_type in ("IndexError", "ValueError", "TypeError")
            and "recursive_number_partitioning_sy.rec_generate_sets" in outcome.via)


def ilp_retry(case, outputtype, check_fn, pres=None, extra_kw=None):
    """The solver-inconsistency rule: repeat the same ILP call with CBC preprocessing off.
    check_fn(presented, outcome) -> list of problems.  Returns True if the repeat is clean
    (so the first answer is counted as a solver inconsistency, not as a violation)."""
    with sut.ilp_preprocess_off():
        p, o = sut.run_case(case, outputtype, pres=pres, extra_kw=extra_kw)
    return o.ok and not check_fn(p, o)


def failures_from(prop, alg, problems):
    return [Failure(f"{prop}/{alg}/{reason}", {"reason": reason, "what": detail}) for reason, detail in problems]
