"""
Model-based interpreter for sequences of bins-manager operations (property C16).

An operation sequence is plain data; `run_ops` executes it step by step on a real bins-manager and on a model
(a list of [sum, items] per live bins-array) and checks, after every step and for every live array, that the
real array equals its model and that no two live arrays share state.

Operations (array selectors are resolved modulo the number of live arrays when the step runs, so any sub-sequence of a
valid sequence is valid - which is what lets a failing sequence be minimised by deleting steps):

  ["new", n]                      new_bins(n)
  ["add", a, item, idx]           add_item_to_bin(A, ITEMS[item], index) with index in -n..n-1
  ["copy", a]                     copy_bins(A)                -> a new live array
  ["sort", a]                     sort_by_ascending_sum(A)
  ["add_empty", a, m]             add_empty_bins(A, m)        -> a new live array; A is handed over (dropped)
  ["remove", a, m]                remove_bins(A, m mod (n+1)) -> a new live array; A is handed over (dropped)
  ["concat", a, b]                concatenate_bins(A, B), A is not B -> a new live array; A and B are handed over
  ["combine", a, i, b, j]         combine_bins(A, i, B, j), A is not B; A is modified, B must not be
"""
import numpy as np

from . import sut

ITEMS = {f"i{v}{c}": v for v in range(10) for c in "ab"}        # two distinct items of every value 0..9
ITEM_NAMES = sorted(ITEMS)
MAX_LIVE = 6
# The items of a history can be of three kinds (the managers store arbitrary objects and read their value through valueof):
#   "str"    names, values from a table;  "int"  plain numbers that are their own value;  "tuple"  (name, value) records.
ITEM_KINDS = ("str", "int", "tuple", "intname")     # "intname": integer ids whose value comes from a table (NOT the id itself)
INT_NAME_VALUES = {i: ITEMS[n] for i, n in enumerate(ITEM_NAMES)}
INT_NAME_VALUES = {i: INT_NAME_VALUES[(i * 7 + 3) % len(ITEM_NAMES)] for i in INT_NAME_VALUES}      # unrelated to the id


def item_of(kind, index):
    name = ITEM_NAMES[index % len(ITEM_NAMES)]
    if kind == "int":
        return ITEMS[name]
    if kind == "tuple":
        return (name, ITEMS[name])
    if kind == "intname":
        return index % len(ITEM_NAMES)
    return name


def value_of(kind, item):
    if kind == "intname":
        return INT_NAME_VALUES[item]
    if kind == "int":
        return item
    if kind == "tuple":
        return item[1]
    return ITEMS[item]


class Live:
    __slots__ = ("real", "model", "born", "copied", "touched_after_copy")

    def __init__(self, real, model, born):
        self.real, self.model, self.born = real, model, born


def make_binner(manager, kind="str"):
    cls = sut.prtpy.BinnerKeepingSums if manager == "sums" else sut.prtpy.BinnerKeepingContents
    if kind == "int":
        return cls()                                    # the default value function: the item is its value
    if kind == "tuple":
        return cls(lambda item: item[1])
    if kind == "intname":
        return cls(INT_NAME_VALUES.__getitem__)
    return cls(ITEMS.__getitem__)


def observe(manager, binner, real):
    """(sums as ints, lists or None) read through the manager's accessors."""
    sums = [sut.num(s) for s in binner.sums(real)]
    if manager == "sums":
        return sums, None
    lists = [list(l) for l in real[1]]
    return sums, lists


def compare(manager, binner, live, step, what, kind="str"):
    """-> list of (reason, detail) for one live array against its model."""
    probs = []
    try:
        sums, lists = observe(manager, binner, live.real)
        nb = binner.numbins(live.real)
    except Exception as e:                         # reading the array failed
        return [(f"{what}:unreadable:{type(e).__name__}", str(e)[:120])]
    want_sums = [m[0] for m in live.model]
    if nb != len(live.model) or len(sums) != len(live.model):
        probs.append((f"{what}:wrong-number-of-bins", {"step": step, "real": nb, "model": len(live.model)}))
        return probs
    if sums != want_sums:
        probs.append((f"{what}:sums-differ-from-model", {"step": step, "real": sut.jsonable(sums), "model": want_sums}))
    if manager == "contents":
        want_lists = [m[1] for m in live.model]
        if len(lists) != len(want_lists):
            probs.append((f"{what}:wrong-number-of-lists", {"step": step, "real": len(lists), "model": len(want_lists)}))
        elif lists != want_lists:
            probs.append((f"{what}:contents-differ-from-model", {"step": step, "real": lists, "model": want_lists}))
        else:
            for i, l in enumerate(lists):
                if sum(value_of(kind, x) for x in l) != sums[i]:
                    probs.append((f"{what}:sum-does-not-describe-contents", {"step": step, "bin": i}))
                    break
                try:
                    if binner.numitems(live.real, i) != len(l):
                        probs.append((f"{what}:numitems-wrong", {"step": step, "bin": i}))
                        break
                except Exception as e:
                    probs.append((f"{what}:numitems-raised:{type(e).__name__}", {"step": step}))
                    break
    return probs


def sums_buffer(manager, real):
    return real if manager == "sums" else real[0]


def sharing(manager, lives, step):
    """No two live arrays may share a sums buffer, an outer list or an inner list."""
    probs = []
    for x in range(len(lives)):
        for y in range(x):
            a, b = lives[x].real, lives[y].real
            sa, sb = sums_buffer(manager, a), sums_buffer(manager, b)
            if isinstance(sa, np.ndarray) and isinstance(sb, np.ndarray) and sa.size and sb.size and np.shares_memory(sa, sb):
                probs.append(("live-arrays-share-a-sums-buffer", {"step": step}))
            if manager == "contents":
                if a[1] is b[1]:
                    probs.append(("live-arrays-share-the-outer-list", {"step": step}))
                ids = {id(l) for l in a[1]}
                if any(id(l) in ids for l in b[1]):
                    probs.append(("live-arrays-share-an-inner-list", {"step": step}))
    if manager == "contents":
        for lv in lives:
            ids = [id(l) for l in lv.real[1]]
            if len(set(ids)) != len(ids):
                probs.append(("one-array-has-the-same-list-object-in-two-bins", {"step": step}))
    return probs


def run_ops(manager, ops, item_kind="str"):
    """Execute the sequence.  Returns (problems, stats): problems = list of (reason, detail), the first failing step only."""
    binner = make_binner(manager, item_kind)
    lives = []
    stats = {"steps": 0, "skipped": 0, "copy_then_mutate": False, "sort_after_tie": False, "ops": {}, "max_live": 0}
    copies = []          # pairs (live a, live b) where b = copy of a, to detect a later mutation of either side

    def mutated(lv):
        for a, b in copies:
            if lv is a or lv is b:
                stats["copy_then_mutate"] = True

    for step, op in enumerate(ops):
        kind = op[0]
        probs = []
        try:
            if kind == "new":
                n = op[1]
                if len(lives) >= MAX_LIVE:
                    stats["skipped"] += 1
                    continue
                lives.append(Live(binner.new_bins(n), [[0, []] for _ in range(n)], step))
            elif not lives:
                stats["skipped"] += 1
                continue
            elif kind == "add":
                lv = lives[op[1] % len(lives)]
                n = len(lv.model)
                if n == 0:
                    stats["skipped"] += 1
                    continue
                item = item_of(item_kind, op[2])
                idx = (op[3] % (2 * n)) - n                 # -n .. n-1
                ret = binner.add_item_to_bin(lv.real, item, idx)
                lv.model[idx][0] += value_of(item_kind, item)
                lv.model[idx][1].append(item)
                mutated(lv)
                if ret is not lv.real:
                    # "Return the bins after the addition": another object is acceptable if it shows the bins after the addition
                    try:
                        rs, rl = observe(manager, binner, ret)
                        same = rs == [m[0] for m in lv.model] and (manager == "sums" or rl == [m[1] for m in lv.model])
                    except Exception:
                        same = False
                    if not same:
                        probs.append(("add:returned-array-does-not-show-the-bins-after-the-addition", {"step": step}))
            elif kind == "copy":
                if len(lives) >= MAX_LIVE:
                    stats["skipped"] += 1
                    continue
                lv = lives[op[1] % len(lives)]
                new = Live(binner.copy_bins(lv.real), [[m[0], list(m[1])] for m in lv.model], step)
                lives.append(new)
                copies.append((lv, new))
            elif kind == "sort":
                lv = lives[op[1] % len(lives)]
                before = sorted((m[0], tuple(m[1])) for m in lv.model)
                if len({m[0] for m in lv.model}) < len(lv.model):
                    stats["sort_after_tie"] = True
                binner.sort_by_ascending_sum(lv.real)
                sums, lists = observe(manager, binner, lv.real)
                if any(sums[i] > sums[i + 1] for i in range(len(sums) - 1)):
                    probs.append(("sort:sums-not-non-decreasing", {"step": step, "sums": sut.jsonable(sums)}))
                if manager == "contents":
                    after = sorted((s, tuple(l)) for s, l in zip(sums, lists))
                    if after != before or len(lists) != len(sums):
                        probs.append(("sort:sums-and-contents-not-permuted-together",
                                      {"step": step, "before": sut.jsonable(before), "after": sut.jsonable(after)}))
                    else:
                        lv.model = [[s, list(l)] for s, l in zip(sums, lists)]       # which tied bin comes first is free
                else:
                    if sorted(sums) != [b[0] for b in before]:
                        probs.append(("sort:sums-changed", {"step": step, "before": [b[0] for b in before], "after": sut.jsonable(sums)}))
                    else:
                        lv.model = [[s, []] for s in sums]
                mutated(lv)
            elif kind in ("add_empty", "remove"):
                k = op[1] % len(lives)
                lv = lives[k]
                n = len(lv.model)
                m = op[2] % 4 if kind == "add_empty" else op[2] % (n + 1)
                res = binner.add_empty_bins(lv.real, m) if kind == "add_empty" else binner.remove_bins(lv.real, m)
                probs += compare(manager, binner, lv, step, f"{kind}:argument-altered-by-the-call", item_kind)
                if kind == "add_empty":
                    model = [[x[0], list(x[1])] for x in lv.model] + [[0, []] for _ in range(m)]
                else:
                    model = [[x[0], list(x[1])] for x in lv.model[:n - m]]
                lives[k] = Live(res, model, step)            # the argument is handed over: used only through the result
                copies[:] = [(a, b) for a, b in copies if a is not lv and b is not lv]
            elif kind in ("concat", "combine"):
                if len(lives) < 2:
                    stats["skipped"] += 1
                    continue
                ka = op[1] % len(lives)
                kb = (ka + 1 + (op[2 if kind == "concat" else 3] % (len(lives) - 1))) % len(lives)
                A, B = lives[ka], lives[kb]
                if kind == "concat":
                    res = binner.concatenate_bins(A.real, B.real)
                    probs += compare(manager, binner, A, step, "concat:first-argument-altered-by-the-call", item_kind)
                    probs += compare(manager, binner, B, step, "concat:second-argument-altered-by-the-call", item_kind)
                    model = [[x[0], list(x[1])] for x in A.model + B.model]
                    new = Live(res, model, step)
                    lives[:] = [l for l in lives if l is not A and l is not B] + [new]
                    copies[:] = [(a, b) for a, b in copies if a not in (A, B) and b not in (A, B)]
                else:
                    na, nb = len(A.model), len(B.model)
                    if na == 0 or nb == 0:
                        stats["skipped"] += 1
                        continue
                    i = (op[2] % (2 * na)) - na
                    j = (op[4] % (2 * nb)) - nb
                    binner.combine_bins(A.real, i, B.real, j)
                    A.model[i][0] += B.model[j][0]
                    A.model[i][1] = A.model[i][1] + list(B.model[j][1])
                    mutated(A)
            else:
                raise ValueError(f"unknown operation {op!r}")
        except Exception as e:
            if isinstance(e, (ValueError,)) and "unknown operation" in str(e):
                raise
            frames = sut.prtpy_frames(e.__traceback__)
            probs.append((f"{kind}:exception:{type(e).__name__}@{frames[-1] if frames else None}", {"step": step, "message": str(e)[:160]}))
            return probs, stats
        stats["steps"] += 1
        stats["ops"][kind] = stats["ops"].get(kind, 0) + 1
        stats["max_live"] = max(stats["max_live"], len(lives))
        for lv in lives:
            probs += compare(manager, binner, lv, step, f"after-{kind}", item_kind)
        probs += [(f"after-{kind}:{r}", d) for r, d in sharing(manager, lives, step)]
        if probs:
            return probs, stats
    return [], stats
