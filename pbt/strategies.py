"""
Hypothesis strategies producing JSON-serialisable cases, and the labels used to measure what was produced.
"""
from hypothesis import strategies as st

from . import sut

# ------------------------------------------------------------------ value lists for partitioning

PROFILES = ["tiny", "small", "medium", "large", "huge", "all-equal", "two-valued", "one-dominant", "planted",
            "arithmetic", "mirrored", "near-equal-large"]


MASK64 = (1 << 64) - 1


def splitmix(seed, count, lo, hi):
    """count integers in lo..hi, a pure function of seed (splitmix64).  Hypothesis draws the seed; its own integer
    strategy is deliberately biased towards small and special values, which makes 'typical' instances (where
    heuristics are not optimal) rare - this expansion gives the evenly spread ones."""
    out, x = [], seed & MASK64
    span = hi - lo + 1
    for _ in range(count):
        x = (x + 0x9E3779B97F4A7C15) & MASK64
        z = x
        z = ((z ^ (z >> 30)) * 0xBF58476D1CE4E5B9) & MASK64
        z = ((z ^ (z >> 27)) * 0x94D049BB133111EB) & MASK64
        z ^= z >> 31
        out.append(lo + z % span)
    return out


NEAR_EQUAL_BASES = [10 ** 6, 2 ** 24, 10 ** 9, 2 ** 40, 10 ** 12]


def near_equal_large(seed, n, base):
    """n values base*m + d with m in 1..4 and d in 0..50: big values that differ by little (relative differences from 1e-5 down to
    1e-13, all far below 2^53) - where a relative tolerance, a float32 or a rounding in a comparison shows."""
    return [base * m + d for m, d in zip(splitmix(seed, n, 1, 4), splitmix(seed + 1, n, 0, 50))]


@st.composite
def int_lists(draw, n, lo, hi, spread=3):
    """n ints in lo..hi: `spread` times out of spread+1 evenly spread (seed expansion), otherwise Hypothesis-native
    (edge-value biased)."""
    if draw(st.integers(0, spread)) > 0:
        return splitmix(draw(st.integers(0, 2 ** 48)), n, lo, hi)
    return draw(st.lists(st.integers(lo, hi), min_size=n, max_size=n))


@st.composite
def sizes(draw, lo, hi):
    """A length in lo..hi, four times out of five from the upper third (small inputs are rarely interesting)."""
    if hi > lo and draw(st.integers(0, 4)) > 0:
        return draw(st.integers(max(lo, hi - max(1, (hi - lo) // 3)), hi))
    return draw(st.integers(lo, hi))


def bin_counts(lo, hi):
    """Number of bins: 1 and the maximum are rare, 2-4 common."""
    pool = [k for k in (1, 2, 2, 2, 3, 3, 3, 4, 4, 4, 5, 5, 6) if lo <= k <= hi]
    return st.sampled_from(pool or [lo])


@st.composite
def planted_values(draw, k, max_len, max_sum=60):
    """k bins of equal sum S cut into random parts and shuffled: a perfect partition exists."""
    S = draw(st.integers(2, max_sum))
    parts = []
    budget = max_len
    for b in range(k):
        room = max(1, min(4, budget - (k - b - 1)))
        npieces = draw(st.integers(min(2, room), room))
        budget -= npieces
        cuts = sorted(draw(st.lists(st.integers(0, S), min_size=npieces - 1, max_size=npieces - 1)))
        prev = 0
        for c in cuts + [S]:
            parts.append(c - prev)
            prev = c
    return draw(st.permutations(parts))


@st.composite
def values_lists(draw, min_len=1, max_len=10, numbins=None, profiles=None, max_value=None):
    """A list of non-negative ints from a mixture of profiles.  Returns (profile, list)."""
    profile = draw(st.sampled_from(profiles or PROFILES))
    n = draw(sizes(min_len, max_len))
    cap = max_value
    if profile == "tiny":
        vals = draw(st.lists(st.integers(0, 4), min_size=n, max_size=n))
    elif profile == "small":
        vals = draw(int_lists(n, 0, 30))
    elif profile == "medium":
        vals = draw(int_lists(n, 1, 200))
    elif profile == "large":
        vals = draw(int_lists(n, 1, 10 ** 6))
    elif profile == "huge":
        # totals stay below 2^53: at most 64 items of at most 2^46
        vals = draw(int_lists(min(n, 64), 2 ** 40, 2 ** 46))
    elif profile == "all-equal":
        v = draw(st.integers(0, 50))
        vals = [v] * n
    elif profile == "two-valued":
        a, b = draw(st.integers(0, 40)), draw(st.integers(0, 40))
        vals = draw(st.lists(st.sampled_from([a, b]), min_size=n, max_size=n))
    elif profile == "one-dominant":
        rest = draw(int_lists(max(0, n - 1), 0, 40))
        big = (sum(rest) + draw(st.integers(-3, 10))) // draw(st.sampled_from([1, 1, 2, 3]))
        vals = draw(st.permutations(rest + [max(0, big)]))
    elif profile == "skewed":
        # a few big items and many small ones: the class where a cardinality bound binds
        nbig = draw(st.integers(1, max(1, n // 3)))
        big = draw(int_lists(nbig, 6, 40))
        small = draw(st.lists(st.integers(1, 3), min_size=max(0, n - nbig), max_size=max(0, n - nbig)))
        vals = draw(st.permutations(big + small))
    elif profile == "near-equal-large":
        # big values that differ by little (relative differences of 1e-5 .. 1e-11): a tolerance, a float32 or a rounding shows here
        vals = near_equal_large(draw(st.integers(0, 2 ** 40)), min(n, 64), draw(st.sampled_from(NEAR_EQUAL_BASES)))
    elif profile == "mirrored":
        # every value twice (or four times): the two halves of the natural top-level split are value-identical, so sub-problems repeat
        reps = 2 if n < 8 or draw(st.booleans()) else 4
        base = draw(st.lists(st.integers(0, draw(st.sampled_from([4, 9, 30]))), min_size=max(1, n // reps), max_size=max(1, n // reps)))
        vals = []
        for _ in range(reps):
            vals += list(draw(st.permutations(base)))
    elif profile == "planted":
        k = numbins if (numbins and numbins >= 2) else draw(st.integers(2, 4))
        vals = draw(planted_values(k, max(max_len, k)))
        vals = list(vals)[:max(max_len, k)]
    else:  # arithmetic
        c = draw(st.integers(1, 9))
        vals = draw(st.permutations([c * (i + 1) for i in range(n)]))
    vals = list(vals)
    if cap is not None:
        vals = [min(v, cap) for v in vals]
    # independent switches: add zero-valued items, duplicate some values
    if draw(st.integers(0, 5)) == 0 and len(vals) < max_len:
        pos = draw(st.integers(0, len(vals)))
        vals.insert(pos, 0)
    if draw(st.integers(0, 5)) == 0 and len(vals) < max_len and vals:
        vals.append(vals[draw(st.integers(0, len(vals) - 1))])
    if not vals:
        vals = [0]
    return profile, vals[:max(max_len, 1)]


def presentations(which=None):
    return st.sampled_from(which or sut.PRESENTATIONS)


CG_OBJECTIVES = ["minmax", "maxmin", "diff"]


@st.composite
def objective_specs(draw, numbins, with_k=True):
    kinds = ["minmax", "maxmin", "diff"] + (["klargest", "ksmallest"] if with_k else [])
    kind = draw(st.sampled_from(kinds))
    if kind in ("klargest", "ksmallest"):
        return f"{kind}:{draw(st.integers(1, numbins + 1))}"
    return kind


switches = st.tuples(st.integers(0, 1), st.integers(0, 1), st.integers(0, 1), st.integers(0, 1)).map(list)


# ------------------------------------------------------------------ packing / covering inputs

BINSIZES = [3, 5, 7, 10, 11, 12, 13, 20, 30, 60, 100]


@st.composite
def binsizes(draw):
    if draw(st.integers(0, 3)) == 0:
        return draw(st.integers(1, 120))
    return draw(st.sampled_from(BINSIZES))


@st.composite
def planted_packing(draw, C, max_bins=5, max_len=13, slack=True):
    """m bins each cut into 2-4 parts, optionally with a little slack: the optimum is m (if no slack removed a
    whole part) and decreasing heuristics usually need m+1."""
    m = draw(st.integers(2, max_bins))
    parts = []
    for b in range(m):
        room = max_len - len(parts) - (m - b - 1)
        npieces = draw(st.integers(1, max(1, min(4, room))))
        fill = C - (draw(st.integers(0, 2)) if slack else 0)
        fill = max(fill, 1)
        cuts = sorted(draw(st.lists(st.integers(1, max(1, fill - 1)), min_size=npieces - 1, max_size=npieces - 1)))
        prev = 0
        for c in cuts + [fill]:
            if c - prev > 0:
                parts.append(c - prev)
            prev = c
    return list(draw(st.permutations(parts)))


@st.composite
def hard_packing(draw, C, max_bins=4, max_len=12):
    """Planted perfect packings on which decreasing heuristics usually fail: every bin is a 'medium' item
    (between a third and a half of the bin) plus two or three fillers that complete it exactly, so that pairing
    the mediums greedily leaves gaps no filler closes.  Needs C >= 12.  Returns (family, values, number of bins)."""
    fam = draw(st.sampled_from(["triples", "medium+fill"]))
    m = draw(st.integers(2, max_bins))
    if fam == "triples":
        m = min(m, max_len // 3)
    else:
        m = min(m, max_len // 4)
    m = max(m, 2)
    vals = []
    for _ in range(m):
        if fam == "triples":
            a = draw(st.integers(C // 3 + 1, C // 2 - 1))
            b = draw(st.integers(C // 4, max(C // 4, C - a - C // 5)))
            c = C - a - b
            if c <= 0:
                b, c = C - a - 1, 1
            vals += [a, b, c]
        else:
            a = draw(st.integers((3 * C) // 10, (9 * C) // 20))
            rest = C - a
            pieces = draw(st.integers(2, 3))
            cuts = sorted(draw(st.lists(st.integers(1, rest - 1), min_size=pieces - 1, max_size=pieces - 1,
                                        unique=True)))
            prev = 0
            for c in cuts + [rest]:
                vals.append(c - prev)
                prev = c
            vals.append(a)
    return fam, list(draw(st.permutations(vals))), m


@st.composite
def packing_values(draw, C, min_len=1, max_len=12, allow_zero=True):
    """Items with 0 <= value <= C.  Returns (profile, list)."""
    profile = draw(st.sampled_from(["uniform", "thresholds", "planted", "many-equal", "small-items", "large-items"]))
    n = draw(st.integers(min_len, max_len))
    lo = 0 if allow_zero else 1
    if profile == "uniform":
        vals = draw(st.lists(st.integers(lo, C), min_size=n, max_size=n))
    elif profile == "thresholds":
        pool = sorted({x for x in (C // 2, C // 2 + 1, C // 2 - 1, C // 3, C // 3 + 1, C // 3 - 1, C, C - 1, 1,
                                   (C + 1) // 2, (C + 2) // 3, 2 * C // 3) if lo <= x <= C})
        vals = draw(st.lists(st.sampled_from(pool), min_size=n, max_size=n))
    elif profile == "planted":
        vals = draw(planted_packing(C, max_bins=5, max_len=max_len))
    elif profile == "many-equal":
        pool = draw(st.lists(st.integers(max(lo, 1), C), min_size=1, max_size=3))
        vals = draw(st.lists(st.sampled_from(pool), min_size=n, max_size=n))
    elif profile == "small-items":
        vals = draw(st.lists(st.integers(lo, max(lo, C // 3)), min_size=n, max_size=n))
    else:
        vals = draw(st.lists(st.integers(max(lo, C // 2), C), min_size=n, max_size=n))
    vals = [min(max(v, lo), C) for v in vals][:max_len]
    if not vals:
        vals = [max(lo, 1) if C >= 1 else 0]
    return profile, vals


@st.composite
def covering_values(draw, C, min_len=1, max_len=12):
    """Positive ints, including values above C and the class boundaries C/2, C/3.  Returns (profile, list)."""
    profile = draw(st.sampled_from(["uniform", "thresholds", "planted", "small-items", "with-big", "too-small"]))
    n = draw(st.integers(min_len, max_len))
    if profile == "uniform":
        vals = draw(st.lists(st.integers(1, C), min_size=n, max_size=n))
    elif profile == "thresholds":
        pool = sorted({x for x in (C // 2, C // 2 + 1, C // 2 - 1, C // 3, C // 3 + 1, C // 3 - 1, C, C - 1, 1, 2,
                                   (C + 1) // 2, (C + 2) // 3, 2 * C // 3, C + 1) if x >= 1})
        vals = draw(st.lists(st.sampled_from(pool), min_size=n, max_size=n))
    elif profile == "planted":
        vals = draw(planted_packing(C, max_bins=5, max_len=max_len, slack=False))
    elif profile == "small-items":
        vals = draw(st.lists(st.integers(1, max(1, C // 3)), min_size=n, max_size=n))
    elif profile == "with-big":
        vals = draw(st.lists(st.one_of(st.integers(1, C), st.integers(C, 2 * C + 3)), min_size=n, max_size=n))
    else:
        # total below one bin
        vals = []
        room = C - 1
        for _ in range(n):
            if room < 1:
                break
            v = draw(st.integers(1, room))
            vals.append(v)
            room -= v
        if not vals:
            vals = [1] if C > 1 else [1]
    return profile, vals[:max_len] or [1]


# ------------------------------------------------------------------ labels

def value_labels(values, k=None):
    labs = []
    if 0 in values:
        labs.append("has-zero")
    if len(set(values)) < len(values):
        labs.append("has-repeat")
    if len(set(values)) == 1 and len(values) > 1:
        labs.append("all-equal")
    if k is not None:
        if k > len(values):
            labs.append("k>n")
        if k == 1:
            labs.append("k=1")
    return labs
