"""
Environment of a check run: which tree is under test, seed, tier, parallelism.

Everything a check does is a function of (tree under test, VERIF_SEED, tier).
"""
import hashlib
import os
import sys

VERIF_DIR = os.path.dirname(os.path.dirname(os.path.abspath(__file__)))
REPO = os.path.abspath(os.environ.get("VERIF_REPO", "/repo"))
DEPS = os.path.join(VERIF_DIR, ".deps")
# where evidence/ and replays/ go: /verif itself, except in the sensitivity self-test (tools/mutants.py), which must not
# overwrite the evidence of the real tree
OUT_DIR = os.path.abspath(os.environ.get("VERIF_OUT", VERIF_DIR))
WHEELS = "/opt/veriftools/wheels"
GUARD = "PRTPY_VERIF"           # reserved name of the hook guard; no source hook exists


def seed() -> int:
    try:
        return int(os.environ.get("VERIF_SEED", "1"))
    except ValueError:
        return 1


def tier() -> str:
    t = os.environ.get("VERIF_TIER", "quick")
    return t if t in ("quick", "thorough") else "quick"


def jobs() -> int:
    try:
        return max(1, int(os.environ.get("VERIF_JOBS", "16")))
    except ValueError:
        return 16


def scale() -> float:
    try:
        return max(0.001, float(os.environ.get("VERIF_SCALE", "1")))
    except ValueError:
        return 1.0


def derive_seed(*parts) -> int:
    """Seed of one shard of one leg of one property: a pure function of VERIF_SEED and the names."""
    text = ":".join(str(p) for p in (seed(),) + parts)
    return int(hashlib.sha256(text.encode()).hexdigest()[:15], 16)


class HarnessError(Exception):
    """Something is wrong with the machinery or its environment (exit 2, never a VIOLATION)."""


def setup_paths():
    """Put the tree under test first on sys.path, local third-party deps last."""
    if REPO not in sys.path:
        sys.path.insert(0, REPO)
    if os.path.isdir(DEPS) and DEPS not in sys.path:
        sys.path.append(DEPS)
    os.environ[GUARD] = "1"
    import warnings
    warnings.simplefilter("ignore")      # numpy RuntimeWarnings of the code under test are not verdicts


def import_prtpy():
    """Import prtpy from the tree under test and make sure that is really where it came from."""
    setup_paths()
    import prtpy
    where = os.path.abspath(prtpy.__file__)
    if not where.startswith(REPO + os.sep):
        raise HarnessError(f"prtpy imported from {where}, not from the tree under test {REPO}")
    return prtpy
