"""
Direct transcriptions of the textbook rules of the nine simple heuristics (property C14), on plain
lists of exact numbers (ints / Fractions).  Lists of values in, lists of lists of values out.

Each function has a `flip` parameter naming one comparison to flip ('<=' <-> '<' and so on).  The
flipped variant is *not* a reference: it is used only to measure whether a generated case is one on
which a one-character change of that comparison would be visible (the non-triviality rule of C14).
"""
from fractions import Fraction


def _desc(values):
    return sorted(values, reverse=True)


# ------------------------------------------------------------------ partitioning

def lpt(values, k, flip=None):
    """Longest-processing-time-first: items in non-increasing order, each to a least-loaded bin."""
    bins = [[] for _ in range(k)]
    sums = [0] * k
    order = sorted(values) if flip == "ascending" else list(values) if flip == "unsorted" else _desc(values)
    for v in order:
        if flip == "most-loaded":
            i = max(range(k), key=sums.__getitem__)
        else:
            i = min(range(k), key=sums.__getitem__)
        bins[i].append(v)
        sums[i] += v
    return bins


def roundrobin(values, k, flip=None):
    """Deal the items, sorted in non-increasing order, cyclically to the bins."""
    bins = [[] for _ in range(k)]
    # (dealing in ascending order gives the same bins as multisets - the residue classes coincide - so the
    # visible variant is "not sorted at all")
    order = list(values) if flip == "unsorted" else _desc(values)
    for j, v in enumerate(order):
        bins[j % k].append(v)
    return bins


# ------------------------------------------------------------------ packing

def first_fit(values, C, flip=None):
    bins, sums = [], []
    for v in values:
        for i in range(len(bins)):
            fits = (sums[i] + v < C) if flip == "fit" else (sums[i] + v <= C)
            if fits:
                bins[i].append(v)
                sums[i] += v
                break
        else:
            bins.append([v])
            sums.append(v)
    return bins


def best_fit(values, C, flip=None):
    """Each item goes to the fullest bin in which it still fits; a new bin if none."""
    bins, sums = [], []
    for v in values:
        best, best_sum = None, None
        for i in range(len(bins)):
            fits = (sums[i] + v < C) if flip == "fit" else (sums[i] + v <= C)
            if not fits:
                continue
            better = best is None or (sums[i] < best_sum if flip == "emptiest" else sums[i] > best_sum)
            if better:
                best, best_sum = i, sums[i]
        if best is None:
            bins.append([v])
            sums.append(v)
        else:
            bins[best].append(v)
            sums[best] += v
    return bins


def first_fit_decreasing(values, C, flip=None):
    return first_fit(sorted(values) if flip == "ascending" else _desc(values), C, flip)


def best_fit_decreasing(values, C, flip=None):
    return best_fit(sorted(values) if flip == "ascending" else _desc(values), C, flip)


# ------------------------------------------------------------------ covering

def _full(s, C, flip):
    return s > C if flip == "full" else s >= C


def _nfd_fill(bins, C, items, flip=None):
    """Next-fit on an already ordered list, continuing in the last (open) bin of `bins`."""
    for v in items:
        bins[-1].append(v)
        if _full(sum(bins[-1]), C, flip):
            bins.append([])
    return bins


def cover_decreasing(values, C, flip=None):
    """Next-fit-decreasing cover: items in non-increasing order into the open bin until it is covered."""
    order = sorted(values) if flip == "ascending" else _desc(values)
    bins = _nfd_fill([[]], C, order, flip)
    return bins[:-1]           # the last bin is not covered


def cover_twothirds(values, C, flip=None):
    """Csirik-Frenk-Labbe-Zhang 'simple' algorithm: one largest item, then smallest items until covered."""
    items = _desc(values)
    bins = [[]]
    while items:
        bins[-1].append(items.pop(0))
        while items and not _full(sum(bins[-1]), C, flip):
            bins[-1].append(items.pop(-1))
        if _full(sum(bins[-1]), C, flip):
            bins.append([])
    return bins[:-1]


def cover_threequarters(values, C, flip=None):
    """Csirik-Frenk-Labbe-Zhang 'improved simple' algorithm with classes X >= C/2 > Y >= C/3 > Z."""
    items = _desc(values)
    half, third = Fraction(C) / 2, Fraction(C) / 3
    if flip == "half":        # an item of exactly C/2 counted as medium
        X = [v for v in items if half < v]
        Y = [v for v in items if third <= v <= half]
        Z = [v for v in items if v < third]
    elif flip == "third":     # an item of exactly C/3 counted as small
        X = [v for v in items if half <= v]
        Y = [v for v in items if third < v < half]
        Z = [v for v in items if v <= third]
    else:
        X = [v for v in items if half <= v]
        Y = [v for v in items if third <= v < half]
        Z = [v for v in items if v < third]
    bins = [[]]
    while True:
        if not Z:
            _nfd_fill(bins, C, X, flip)
            _nfd_fill(bins, C, Y, flip)
            break
        if not X and not Y:
            _nfd_fill(bins, C, Z, flip)
            break
        head_x, head_y = X[0:1], Y[0:2]
        take_x = (sum(head_x) > sum(head_y)) if flip == "start" else (sum(head_x) >= sum(head_y))
        if take_x:
            bins[-1].extend(head_x)
            del X[0:len(head_x)]
        else:
            bins[-1].extend(head_y)
            del Y[0:len(head_y)]
        while Z and not _full(sum(bins[-1]), C, flip):
            bins[-1].append(Z.pop(-1))
        if _full(sum(bins[-1]), C, flip):
            bins.append([])
    return bins[:-1]


REFERENCE = {
    "greedy": lpt, "roundrobin": roundrobin,
    "ff": first_fit, "ffd": first_fit_decreasing, "bf": best_fit, "bfd": best_fit_decreasing,
    "decreasing": cover_decreasing, "twothirds": cover_twothirds, "threequarters": cover_threequarters,
}
FLIPS = {
    "greedy": ["ascending", "unsorted", "most-loaded"], "roundrobin": ["unsorted"],
    "ff": ["fit"], "ffd": ["fit", "ascending"], "bf": ["fit", "emptiest"], "bfd": ["fit", "emptiest", "ascending"],
    "decreasing": ["full", "ascending"], "twothirds": ["full"],
    "threequarters": ["full", "half", "third", "start"],
}
# Algorithms whose rule leaves the choice among tied bins free: compared on the multiset of sums only.
SUMS_ONLY = {"greedy", "bf", "bfd"}


def canon_bins(bins):
    """Bins as a multiset of value-multisets."""
    return sorted(sorted(b) for b in bins)


def canon_sums(bins):
    return sorted(sum(b) for b in bins)
