"""
Reference computations.  Pure Python on ints / Fractions; never calls prtpy.

Every fast oracle here is validated against the dumbest possible enumeration by
`validate_oracles()` (run at the start of every check that uses one; a disagreement is a harness
error, never a VIOLATION).
"""
import itertools
from fractions import Fraction
from functools import lru_cache

from .env import HarnessError

# ------------------------------------------------------------------ partitions: reachable sum vectors


@lru_cache(maxsize=48)          # each entry can hold 10^4-10^5 tuples: keep the cache small (memory), it only serves repeated look-ups of one case
def _sum_vectors(values, k):
    states = {(0,) * k}
    for v in values:
        nxt = set()
        for s in states:
            prev = None
            for i in range(k):
                if s[i] == prev:
                    continue
                prev = s[i]
                t = list(s)
                t[i] += v
                t.sort()
                nxt.add(tuple(t))
        states = nxt
    return frozenset(states)


def sum_vectors(values, k):
    """All sorted k-vectors of bin sums reachable by assigning every value to one of k bins."""
    return _sum_vectors(tuple(sorted(values, reverse=True)), k)


def sum_vectors_cost(n, k):
    """Rough upper estimate of the number of states (for keeping generated sizes in the envelope)."""
    c = k ** n
    f = 1
    for i in range(2, k + 1):
        f *= i
    return c // f + 1


def objective_value(spec, sums):
    """My definition of each objective as the *quantity the user cares about*, on a vector of sums.
    Returns (value, sense) with sense 'min' or 'max'."""
    s = sorted(sums)
    if spec == "minmax":
        return s[-1], "min"
    if spec == "maxmin":
        return s[0], "max"
    if spec == "diff":
        return s[-1] - s[0], "min"
    if spec.startswith("klargest:"):
        kk = int(spec.split(":")[1])
        return sum(s[max(0, len(s) - kk):]), "min"
    if spec.startswith("ksmallest:"):
        kk = int(spec.split(":")[1])
        return sum(s[:kk]), "max"
    raise HarnessError(f"unknown objective {spec}")


def to_minimize(spec, sums):
    """The same quantity in 'smaller is better' form (what prtpy's value_to_minimize documents)."""
    v, sense = objective_value(spec, sums)
    return v if sense == "min" else -v


def two_way_sums(values):
    """All achievable sums of one side of a 2-way partition, as a bitset (bit s set <=> some sub-collection sums to s)."""
    bits = 1
    for v in values:
        bits |= bits << v
    return bits


def opt_two_way(values, spec):
    """Optimum for 2 bins by subset-sum DP (any number of items): every objective is monotone in the difference."""
    total = sum(values)
    half = total // 2
    if total > 4 * 10 ** 6:                  # big values: the set of subset sums (at most 2^n of them) instead of a bitset of `total` bits
        if len(values) > 22:
            raise HarnessError("opt_two_way: too many large values for the subset-sum set")
        sums = {0}
        for v in values:
            sums |= {x + v for x in sums if x + v <= half}
        s = max(sums)
    else:
        bits = two_way_sums(values)
        low = bits & ((1 << (half + 1)) - 1)
        s = low.bit_length() - 1             # the largest achievable sum <= total/2
    vec = (s, total - s)
    return objective_value(spec, vec)[0]


def opt_three_way(values, spec):
    """Optimum of minmax / maxmin / diff for 3 bins and any number of items, by a two-dimensional subset-sum table: row a is a bitset
    of the sums b that a second bin can have while a first bin has sum a.  Every partition can be labelled so that the first bin is
    the smallest and the second the middle one, so rows a <= total/3 and bits b <= total/2 are enough; for a fixed smallest sum a all
    three objectives are best at the largest b with a <= b <= (total-a)/2."""
    total = sum(values)
    amax, bmask = total // 3, (1 << (total // 2 + 1)) - 1
    rows = [0] * (amax + 1)
    rows[0] = 1
    for v in values:
        new = list(rows)
        for a in range(amax + 1):
            r = rows[a]
            if r:
                new[a] |= (r << v) & bmask
                if a + v <= amax:
                    new[a + v] |= r
        rows = new
    best = None
    sense = objective_value(spec, [0])[1]
    for a in range(amax + 1):
        low = rows[a] & ((1 << ((total - a) // 2 + 1)) - 1)
        b = low.bit_length() - 1
        if b < a:
            continue
        val = objective_value(spec, (a, b, total - a - b))[0]
        if best is None or (val < best if sense == "min" else val > best):
            best = val
    return best


def opt(values, k, spec):
    """Optimal value of the objective over all partitions of values into k bins."""
    if k == 2 and len(values) > 10:
        return opt_two_way(values, spec)
    if k == 3 and len(values) > 10 and spec in ("minmax", "maxmin", "diff"):
        return opt_three_way(values, spec)
    vecs = sum_vectors(values, k)
    vals = [objective_value(spec, s)[0] for s in vecs]
    sense = objective_value(spec, next(iter(vecs)))[1]
    return min(vals) if sense == "min" else max(vals)


# ------------------------------------------------------------------ balanced two-way partitioning

def opt_balanced(values, d=None):
    """Smallest |sum(A)-sum(B)| over two-way partitions with | |A|-|B| | <= d (d None: unconstrained)."""
    n, total = len(values), sum(values)
    states = {(0, 0)}
    for v in values:
        states |= {(c + 1, s + v) for (c, s) in states}
    best = None
    for c, s in states:
        if d is not None and abs(2 * c - n) > d:
            continue
        g = abs(2 * s - total)
        if best is None or g < best:
            best = g
    return best


# ------------------------------------------------------------------ bin packing / covering optimum (bitmask DP)

@lru_cache(maxsize=4096)
def _min_bins(values, C):
    vals = [v for v in values if v != 0]
    n = len(vals)
    if n == 0:
        return 0
    full = (1 << n) - 1
    INF = (n + 1, 0)
    dp = [INF] * (full + 1)
    dp[0] = (0, C)          # (bins used, load of the last bin); load C means "no room": forces a new bin
    for mask in range(full + 1):
        cur = dp[mask]
        if cur == INF:
            continue
        b, load = cur
        for i in range(n):
            bit = 1 << i
            if mask & bit:
                continue
            v = vals[i]
            cand = (b, load + v) if load + v <= C else (b + 1, v)
            nm = mask | bit
            if cand < dp[nm]:
                dp[nm] = cand
    return dp[full][0]


def min_bins(values, C):
    """Minimum number of bins of capacity C holding all values (each 0 <= v <= C).  Zero-valued items need no bin;
    a non-empty all-zero input is reported as 0 here - callers add their own convention."""
    if any(v > C for v in values):
        raise HarnessError("min_bins: oversize item")
    return _min_bins(tuple(sorted(values, reverse=True)), C)


@lru_cache(maxsize=4096)
def _max_cover(values, C):
    n = len(values)
    full = (1 << n) - 1
    dp = [None] * (full + 1)
    dp[0] = (0, 0)          # (bins covered, sum in the open bin): lexicographically larger is better
    for mask in range(full + 1):
        cur = dp[mask]
        if cur is None:
            continue
        b, load = cur
        for i in range(n):
            bit = 1 << i
            if mask & bit:
                continue
            s = load + values[i]
            cand = (b + 1, 0) if s >= C else (b, s)
            nm = mask | bit
            if dp[nm] is None or cand > dp[nm]:
                dp[nm] = cand
    return dp[full][0]


def max_cover(values, C):
    """Largest number of disjoint sub-collections each summing to at least C."""
    return _max_cover(tuple(sorted(values, reverse=True)), C)


# ------------------------------------------------------------------ water level: best reachable from partial sums

def water_fill(sums, R):
    """Distribute R units one at a time, always to a currently smallest bin.
    The result simultaneously maximises the minimum and minimises the maximum over all ways of adding
    non-negative integers with total R; returned as the sorted final vector."""
    s = sorted(sums)
    k = len(s)
    # find how many of the smallest bins get raised to a common level
    R = int(R)
    i = 1
    acc = s[0]
    while i < k and (acc + R) > i * s[i]:
        # raising the first i bins to level s[i] costs i*s[i]-acc <= R ?  (strict > keeps bins at level below s[i])
        acc += s[i]
        i += 1
    # the first i bins share acc+R units
    level, extra = divmod(acc + R, i)
    out = [level] * (i - extra) + [level + 1] * extra + s[i:]
    return sorted(out)


def best_reachable(spec, sums, R):
    w = water_fill(sums, R)
    return objective_value(spec, w)[0]


def compositions(R, k):
    """All k-vectors of non-negative ints with total R."""
    if k == 1:
        yield (R,)
        return
    for a in range(R + 1):
        for rest in compositions(R - a, k - 1):
            yield (a,) + rest


def best_reachable_brute(spec, sums, R):
    best = None
    sense = objective_value(spec, sums)[1]
    for c in compositions(R, len(sums)):
        v = objective_value(spec, [a + b for a, b in zip(sums, c)])[0]
        if best is None or (v < best if sense == "min" else v > best):
            best = v
    return best


# ------------------------------------------------------------------ ILP with copies / weights / constraints

def ordered_sum_vectors(values, copies, k):
    """All *ordered* k-vectors of raw bin sums reachable when item i is placed copies[i] times
    (several copies of one item may share a bin)."""
    states = {(0,) * k}
    for v, c in zip(values, copies):
        for _ in range(c):
            nxt = set()
            for s in states:
                for i in range(k):
                    t = list(s)
                    t[i] += v
                    nxt.add(tuple(t))
            states = nxt
    return states


def check_constraint(constraint, norm_sums):
    """constraint: None | ['min==', c] | ['max<=', c] | ['min>=', c]; on the sums in bin-index order (what the caller's function receives:
    first / last entry), which are in ascending order whenever the weights are equal or absent."""
    if constraint is None:
        return True
    kind, c = constraint
    if kind == "min==":
        return norm_sums[0] == c
    if kind == "max<=":
        return norm_sums[-1] <= c
    if kind == "min>=":
        return norm_sums[0] >= c
    raise HarnessError(f"unknown constraint {constraint}")


def opt_ilp(values, copies, k, weights, constraint, spec):
    """Optimum (in 'to minimise' form) over assignments whose weight-normalised sums are non-decreasing in
    bin index and satisfy the constraint; None if no such assignment exists."""
    w = weights or [1] * k
    best = None
    for s in ordered_sum_vectors(values, copies, k):
        ns = [Fraction(a, b) for a, b in zip(s, w)]
        if any(ns[i + 1] < ns[i] for i in range(k - 1)):
            continue
        if not check_constraint(constraint, list(s)):      # the caller's constraints speak about the SUMS (in bin-index order), not the weighted sums
            continue
        v = to_minimize(spec, ns)
        if best is None or v < best:
            best = v
    return best


# ------------------------------------------------------------------ validation of the oracles themselves

def _brute_assignments(values, k):
    for assign in itertools.product(range(k), repeat=len(values)):
        sums = [0] * k
        for v, b in zip(values, assign):
            sums[b] += v
        yield assign, sums


def _brute_min_bins(values, C):
    vals = [v for v in values if v != 0]
    n = len(vals)
    if n == 0:
        return 0
    best = n
    for assign, sums in _brute_assignments(vals, n):
        if max(sums) <= C:
            best = min(best, len(set(assign)))
    return best


def _brute_max_cover(values, C):
    n = len(values)
    best = 0
    for assign, sums in _brute_assignments(values, n + 1):     # bin index n = "unused"
        cnt = 0
        ok = True
        for b in range(n):
            if sums[b] == 0 and b not in assign:
                continue
            if sums[b] >= C:
                cnt += 1
            else:
                ok = False
                break
        if ok:
            best = max(best, cnt)
    return best


def _brute_balanced(values, d):
    n, total = len(values), sum(values)
    best = None
    for mask in range(1 << n):
        c = bin(mask).count("1")
        if d is not None and abs(2 * c - n) > d:
            continue
        s = sum(values[i] for i in range(n) if mask >> i & 1)
        g = abs(2 * s - total)
        if best is None or g < best:
            best = g
    return best


_VALIDATED = set()


def validate_oracles(which=("partition", "balanced", "packing", "cover", "water", "ilp")):
    """Compare each fast oracle with a brute-force enumeration on a tiny exhaustive scope."""
    for name in which:
        if name in _VALIDATED:
            continue
        if name == "partition":
            for n in range(1, 5):
                for values in itertools.combinations_with_replacement(range(0, 4), n):
                    for k in range(1, 4):
                        brute = {tuple(sorted(s)) for _, s in _brute_assignments(values, k)}
                        if brute != set(sum_vectors(values, k)):
                            raise HarnessError(f"sum_vectors oracle wrong on {values},{k}")
                        for spec in ("minmax", "maxmin", "diff", "klargest:2", "ksmallest:2"):
                            vals = [objective_value(spec, s)[0] for s in brute]
                            sense = objective_value(spec, [0])[1]
                            if opt(values, k, spec) != (min(vals) if sense == "min" else max(vals)):
                                raise HarnessError(f"opt oracle wrong on {values},{k},{spec}")
            for values in ([3, 1, 4, 1, 5, 9, 2, 6], [7, 7, 7, 1], [0, 0, 5], [10, 1, 1, 1, 1, 2], [13, 8, 5, 3, 2, 1, 1]):
                for spec in ("minmax", "maxmin", "diff", "klargest:1", "ksmallest:1", "klargest:2", "ksmallest:3"):
                    vals = [objective_value(spec, s)[0] for s in sum_vectors(values, 2)]
                    sense = objective_value(spec, [0])[1]
                    if opt_two_way(values, spec) != (min(vals) if sense == "min" else max(vals)):
                        raise HarnessError(f"opt_two_way oracle wrong on {values},{spec}")
            for values in ([3 * 10 ** 6, 10 ** 6, 4 * 10 ** 6 + 1, 1, 5, 9 * 10 ** 6, 2, 6], [7 * 10 ** 6] * 3 + [1], [0, 0, 5 * 10 ** 6]):
                for spec in ("minmax", "maxmin", "diff"):
                    vals = [objective_value(spec, s)[0] for s in sum_vectors(values, 2)]
                    sense = objective_value(spec, [0])[1]
                    if opt_two_way(values, spec) != (min(vals) if sense == "min" else max(vals)):
                        raise HarnessError(f"opt_two_way (set form) oracle wrong on {values},{spec}")
            for values in ([3, 1, 4, 1, 5, 9, 2, 6], [7, 7, 7, 1], [0, 0, 5], [10, 1, 1, 1, 1, 2], [13, 8, 5, 3, 2, 1, 1], [4], [2, 2],
                           [9, 8, 7, 6, 5, 4, 3, 2, 1], [100, 1, 1], [6, 6, 6, 6, 6, 6, 1]):
                for spec in ("minmax", "maxmin", "diff"):
                    vals = [objective_value(spec, s)[0] for s in sum_vectors(values, 3)]
                    sense = objective_value(spec, [0])[1]
                    if opt_three_way(values, spec) != (min(vals) if sense == "min" else max(vals)):
                        raise HarnessError(f"opt_three_way oracle wrong on {values},{spec}")
            # planted: k bins of equal sum
            if opt([5, 3, 2, 4, 4, 2, 7, 3], 3, "diff") != 0 or opt([5, 3, 2, 4, 4, 2, 7, 3], 3, "minmax") != 10:
                raise HarnessError("opt oracle wrong on planted instance")
        elif name == "balanced":
            for n in range(1, 6):
                for values in itertools.combinations_with_replacement(range(0, 4), n):
                    for d in (None, 1, 2, 3):
                        if opt_balanced(list(values), d) != _brute_balanced(values, d):
                            raise HarnessError(f"opt_balanced oracle wrong on {values},{d}")
        elif name == "packing":
            for C in (3, 4, 5):
                for n in range(1, 6):
                    for values in itertools.combinations_with_replacement(range(0, C + 1), n):
                        if min_bins(values, C) != _brute_min_bins(values, C):
                            raise HarnessError(f"min_bins oracle wrong on {values},{C}")
            if min_bins([6, 5, 4, 3, 2] * 2, 10) != 4:
                raise HarnessError("min_bins oracle wrong on planted instance")
        elif name == "cover":
            for C in (3, 4, 5):
                for n in range(1, 5):
                    for values in itertools.combinations_with_replacement(range(1, C + 3), n):
                        if max_cover(values, C) != _brute_max_cover(values, C):
                            raise HarnessError(f"max_cover oracle wrong on {values},{C}")
            if max_cover([6, 4, 5, 5, 3, 3, 4, 7, 2, 1], 10) != 4:
                raise HarnessError("max_cover oracle wrong on planted instance")
        elif name == "water":
            for k in range(1, 4):
                for sums in itertools.combinations_with_replacement(range(0, 5), k):
                    for R in range(0, 6):
                        for spec in ("minmax", "maxmin", "diff"):
                            if best_reachable(spec, sums, R) != best_reachable_brute(spec, sums, R):
                                raise HarnessError(f"water_fill oracle wrong on {sums},{R},{spec}")
        elif name == "ilp":
            # without weights/constraints/copies the ILP optimum is the plain optimum
            for values in ([3, 1, 2], [5, 5, 4, 1], [2, 2, 2, 3, 3]):
                for k in (1, 2, 3):
                    for spec in ("minmax", "maxmin", "diff"):
                        a = opt_ilp(values, [1] * len(values), k, None, None, spec)
                        v, sense = opt(values, k, spec), objective_value(spec, [0])[1]
                        if a != (v if sense == "min" else -v):
                            raise HarnessError(f"opt_ilp oracle wrong on {values},{k},{spec}")
            # copies: every item twice == the doubled list
            if opt_ilp([3, 1], [2, 2], 2, None, None, "diff") != opt([3, 3, 1, 1], 2, "diff"):
                raise HarnessError("opt_ilp oracle wrong with copies")
            # weights [1,2] on [4,4]: normalised sums must ascend -> (0, 8/2) or (4, 4/2)x ; best maxmin = 0
            if opt_ilp([4, 4], [1, 1], 2, [1, 2], None, "maxmin") != 0:
                raise HarnessError("opt_ilp oracle wrong with weights")
        else:
            raise HarnessError(f"unknown oracle family {name}")
        _VALIDATED.add(name)
