#!/usr/bin/env python3
"""Regenerate MANIFEST.json from the table below (kept valid at all times; run after adding a property module)."""
import json
import os

HERE = os.path.dirname(os.path.dirname(os.path.abspath(__file__)))
BASELINE = ("cd /repo && /venv/bin/python -m pytest -ra -q -p no:cacheprovider --timeout=900 "
            "--continue-on-collection-errors")

# id -> (level category, technique, level text, level note, design ref)
CLAIMS = {
    "C01": ("exploration", "property-based testing (Hypothesis, collect-then-minimise) + bounded-exhaustive enumeration; "
            "oracle: multiset equality of names and bin count",
            "Generated-input search over (algorithm, options, profile-mixed item lists, numbins, five input "
            "presentations) with a multiset-equality oracle, plus a complete enumeration of all multisets of <=5 values "
            "from 0..3 x 1..6 bins x 11 algorithms. Shows absence of violations on the explored cases and scope only.",
            "Trusts the harness's normalisation layer (pbt/sut.py) and Python's Counter; ILP answers that fail and "
            "pass with CBC preprocessing off are counted inconclusive; rnp kept at <=5 bins (known finding).",
            "DESIGN.md 6/C01"),
    "C02": ("exploration", "property-based testing against an exhaustive-optimum oracle + bounded-exhaustive enumeration "
            "over all configurations",
            "Every exact algorithm/configuration (dp, ilp x 5 objective kinds; complete greedy x 3 objectives x all 16 "
            "switch combinations; ckk, snp, rnp) is compared with the optimum computed by enumerating all reachable "
            "sum vectors, on generated instances (<=10 items, <=5 bins, biased to planted/one-dominant inputs) and on "
            "the complete scope of multisets of <=6 values from 0..7 x 1..4 bins; volume legs at the largest shapes the oracles reach "
            "(rnp with 5 bins, snp/ckk/cg with 5-6 bins, 3 bins x 11-13 items against a two-dimensional subset-sum optimum, 2 bins x 11-16 "
            "items against a subset-sum optimum, inputs with 2-4 distinct values, dp with large layers on inputs where the objectives disagree).",
            "Oracle = layered set enumeration validated against itertools.product brute force at the start of every "
            "run; exponential, hence the size envelope. ILP restricted to values <=200 as in the quantifier.",
            "DESIGN.md 6/C02"),
    "C03": ("exploration", "property-based testing with a feasibility/conservation predicate over every output type",
            "Generated packing inputs (6 value profiles incl. planted-perfect and 'hard' families, ints and eighths, five "
            "presentations) for ff/ffd/bf/bfd/bin_completion; oracle: every bin sum <= bin size in exact arithmetic, "
            "multiset of names equals the input (bin_completion modulo zero-valued items), no empty bin, and the bin "
            "count of every other output type equals that of the Partition output.",
            "bin_completion limited to <=11 items by its own exponential completion generator; max/min-type outputs of a "
            "zero-bin result raising ValueError is accepted (undefined quantity).",
            "DESIGN.md 6/C03"),
    "C04": ("exploration", "property-based testing against an exact bitmask-DP optimum + bounded-exhaustive enumeration",
            "bin_completion's bin count (Partition, Sums, BinCount outputs) is compared with the exact minimum from a "
            "bitmask DP on generated instances where best-fit-decreasing is not optimal (constructed 'hard' planted "
            "families) and on all multisets of <=7 items from 1..C for C in {5,6,7,8,10}; feasibility of the returned "
            "packing is checked so that an infeasible packing cannot pass as optimal.",
            "Oracle validated against brute force at start; <=12 items.",
            "DESIGN.md 6/C04"),
    "C05": ("exploration", "property-based testing with a cover-validity predicate",
            "Generated covering inputs (positive ints incl. items above the bin size, class-threshold values, inputs too "
            "small to cover a bin; five presentations) for the three covering algorithms; oracle: each bin sum >= bin "
            "size, each name used at most once and known, unused value < bin size; the same call through the sums-only output types (Sums, "
            "BinCount) is held to the same statement; a larger leg reaches 80 items.",
            "Exact integer arithmetic; names homogeneous per input.",
            "DESIGN.md 6/C05"),
    "C06": ("exploration", "property-based testing with a cross-output-type consistency oracle (one call per output type; everything recomputed from the full partition output)",
            "Any of the 19 algorithms on generated C01/C03/C05 inputs in five presentations is called once per output type in "
            "prtpy.out (10 calls): each reported sum must equal the total value of the items of the bin with the same index, and "
            "Sums, SortedSums, LargestSum, SmallestSum, ExtremeSums, Difference, BinCount, Partition and PartitionAndSums must "
            "equal what is computed from the PartitionAndSumsTuple answer. Half of the cases use an algorithm that swaps or "
            "bypasses the caller's bins-manager (cbldm, dp, bin_completion, ckk, snp, rnp, ilp).",
            "Sums compared as a multiset (bin order is not part of the statement); exponential algorithms stay in their size envelope.",
            "DESIGN.md 6/C06"),
    "C07": ("exploration", "metamorphic property-based testing across five input presentations with misleading integer names",
            "Each generated input is run as list, numpy array, dict with string names, dict with integer names deliberately ordered "
            "differently from the values, and names + value function, for all 19 algorithms: the sorted sum vector must be identical "
            "in all five, the named result must be a true partition / feasible packing / valid cover of the names, and the values of "
            "the names must reproduce the reported sums index by index. A second leg draws inputs from 2-3 distinct values so that "
            "tie-breaks by name would show.",
            "Names homogeneous (all str or all int) and distinct; integer values.",
            "DESIGN.md 6/C07"),
    "C08": ("exploration", "targeted property-based testing of worst-case bounds in exact rational arithmetic against an exhaustive optimum, planted optima and published tight families",
            "greedy, Karmarkar-Karp, multifit (iterations 0..12) and round-robin on generated inputs: largest sum <= (4/3-1/3k) OPT (greedy, kk), "
            "smallest sum >= (3k-1)/(4k-2) OPT (greedy), largest sum <= (1.22+2^-iterations) OPT (multifit), max-min <= largest item "
            "(greedy, kk, round-robin), round-robin sums non-increasing in bin index and cardinalities within one. OPT from the exhaustive "
            "sum-vector oracle (<=10 items), from planted perfect partitions (up to ~300 items) and from LPT's tight family k=2..12 and "
            "multifit's 13-bin instance, scaled and permuted. hypothesis.target drives the small leg towards ratio/bound = 1.",
            "The bounds are those stated in the property; bins multifit leaves unopened count as empty bins.",
            "DESIGN.md 6/C08"),
    "C09": ("exploration", "targeted property-based testing of a pairwise invariant and count bounds against an exact bitmask-DP optimum and planted optima",
            "first-fit, best-fit and their decreasing variants on generated arrival orders (ints and eighths, up to 60 items; planted exactly-full "
            "bins up to 25 bins; the classical 5/3 arrival order): for every pair of bins i<j, sum(bin i) + first item of bin j > bin size; bins "
            "<= floor(1.7 OPT), FFD <= 11/9 OPT + 6/9, BFD <= 11/9 OPT + 4 wherever OPT is known exactly (bitmask DP <= 14 items, or by construction).",
            "Bin order of the Partition output is the opening order; a non-empty all-zero input has OPT 1.",
            "DESIGN.md 6/C09"),
    "C10": ("exploration", "targeted property-based testing of approximation guarantees against an exact bitmask-DP optimum, planted covers and published worst-case families",
            "decreasing, two-thirds and three-quarters covering on generated inputs: the returned bins are a valid cover, the reported BinCount "
            "never exceeds OPT (<= floor(total/binsize)), and bins >= (OPT-1)/2 | 2/3 (OPT-1) | 3/4 OPT - 4. "
            "OPT exact up to 14 items; beyond that planted exactly-full bins (up to 120 bins, ~1400 items, four construction styles) and the "
            "published CFLZ families k=1..20 give a lower bound on OPT, perturbed by up to 4 extra items and a generated arrival order.",
            "The guarantees are increasing in OPT, so a count below the guarantee at a certified lower bound of OPT is a violation.",
            "DESIGN.md 6/C10"),
    "C13": ("exploration", "bounded-exhaustive enumeration + property-based testing of three extension points against brute-force oracles (water-filling optimum, all 2^n subsets, all k! pairings)",
            "(a) Objective.lower_bound of the three bounded objectives on every sorted vector of <=4 sums over 0..5 x remaining totals 0..7 "
            "(thorough: <=5 sums over 0..6, totals 0..9) and on generated vectors up to 10^9 incl. the floor/ceil boundaries: one value whatever "
            "the sorted flag, order or container type, never above the best value reachable by distributing the remaining total. "
            "(b) InExclusionBinTree.generate_tree on every list of <=4|5 values over 0..3 x every integer window and on generated lists of <=10 "
            "named items with zeros and repeats x inner / edge / empty / negative / half-integral windows: the multiset of yielded sets equals "
            "the multiset of all index subsets inside the window. (c) all_combinations of both managers on 1-5 bins incl. forced "
            "equal-sum-different-content bins: canonical forms yielded = canonical forms over all k! pairings, each exactly once.",
            "Direct calls on documented extension points; integer sums; string names.",
            "DESIGN.md 6/C13"),
    "C14": ("exploration", "differential property-based testing against reference models transcribed from the documentation",
            "Each of the nine simple heuristics is compared with a direct transcription of its documented rule "
            "(pbt/refmodels.py) on up to 40 items incl. ties, exact fills and the class thresholds C/2, C/3: sorted bin "
            "sums for greedy/bf/bfd, bins as multisets of value multisets for the others. A case counts as non-trivial "
            "only if flipping one comparison in the reference changes the reference's answer on it.",
            "The reference models are the specification; they were read off the docstrings and Csirik-Frenk-Labbe-Zhang "
            "(1999).",
            "DESIGN.md 6/C14"),
    "C20": ("exploration", "property-based testing against re-implemented definitions + bounded-exhaustive enumeration",
            "Each built-in objective is called directly on generated sum vectors (1-8 sums up to 10^6; list, tuple, int and "
            "float arrays; k from 1 to len+3; integer and fractional positive weights) in the given order, on the ascending "
            "copy through the sorted fast path and the slow path, and on the descending copy; every value is compared with "
            "an independent exact definition. All vectors of <=4 entries over 0..4 are enumerated completely.",
            "The oracle never calls prtpy; the weighted objective is compared within 1e-12 relative tolerance.",
            "DESIGN.md 6/C20"),
    "C11": ("fault_enumeration", "property-based testing with exhaustive enumeration of interruption points under a deterministic counting clock; oracles: partition validity, monotone objective, reference LPT, exhaustive optimum",
            "complete greedy (3 objectives x 16 switch combinations) and cbldm (default / 1 / 2 / 3 cardinality bound) are called directly with a "
            "contents manager while a counting clock replaces the module's clock: one unlimited run gives the number T of clock readings, then "
            "the call is repeated for every cut-off t = 0|1..T+1 (every point at which the limit test can fire; beyond 400 cut-offs the "
            "first 200, last 100 and 100 sampled). Each interrupted result must be the no-solution value or a complete valid partition "
            "(obeying the cardinality bound), the objective value must be non-increasing in t, complete greedy's first solution must be the "
            "greedy one, the largest limit must equal no limit, and no limit must be optimal. The CKK generator's yields must be valid, "
            "strictly improving and end at the optimum.",
            "No source hook: the modules read time.perf_counter through the module attribute `time`, which the check replaces (and patches time.perf_counter itself for the duration of the call).",
            "DESIGN.md 6/C11"),
    "C12": ("exploration", "property-based testing against a DP optimum under the cardinality bound + bounded-exhaustive enumeration",
            "cbldm is run on generated inputs of up to 12 items (zeros, repeats, all-ones, few-big-many-small) with the "
            "default bound and bounds 1,2,3,random; the result must be a true 2-partition, obey the bound and attain the "
            "minimum difference over all subsets obeying it. All multisets of <=8 values from 0..4 x bounds 1..4 are "
            "enumerated completely in both tiers, plus a skewed big/small family where the bound binds.",
            "Oracle = DP over (cardinality, sum) states validated against 2^n brute force at start; no time limit.",
            "DESIGN.md 6/C12"),
    "C15": ("exploration", "property-based testing: deep argument snapshots, repeated calls, and model-based call histories compared with references computed in pristine forked interpreters",
            "(i)+(ii) every algorithm on generated inputs in every presentation, incl. refused calls: a deep snapshot of the argument (element "
            "types and reprs, array bytes / dtype / flags, dict items in order, the value table) must be unchanged after the call, and the call "
            "repeated on the same object and on an equal fresh object must give the identical result. (iii) generated histories of 3-9 calls "
            "over a pool of shared input objects, incl. repeated and refused calls: the whole history runs in a child fork()ed from a fresh "
            "interpreter that has imported prtpy and never called it, each call also runs alone in its own such child, and every result in "
            "the history must equal its reference; histories include parameter sweeps and steps in which the caller changes a value of an "
            "input object between two calls (the reference replays the same changes on a freshly built object).",
            "Reference state = post-import state of a brand-new interpreter reached by fork(); results compared after normalisation, bin order and in-bin order included.",
            "DESIGN.md 6/C15"),
    "C16": ("exploration", "model-based testing of operation histories (Hypothesis rule-based state machine with native sequence shrinking + histories generated as data + bounded-exhaustive sequences) against a list-of-(sum, items) model",
            "Histories of new / add (indices -n..n-1, zero-valued items) / copy / sort / add-empty / remove / concatenate / combine over a pool of "
            "up to six live bins-arrays, for both managers, respecting the hand-over discipline of the statement. After every step every live "
            "array must equal its model (number of bins, each sum, each item list, numitems), the call's arguments must be unaltered where "
            "documented so, sorting must permute sums and contents together into non-decreasing order, and no two live arrays may share a "
            "sums buffer or a list object (independence of copies in both directions). Every sequence of <=3 (quick) / <=4 (thorough) "
            "actions from an alphabet of 18 concrete actions is enumerated completely.",
            "concatenate / combine never applied to an array and itself; order among tied bins after sort is free.",
            "DESIGN.md 6/C16"),
    "C17": ("exploration", "property-based testing of option combinations against an explicit enumeration of all feasible assignments (exact rational arithmetic), with an exception oracle for infeasible requests",
            "The ILP partitioner on <=6 items (values <=200), 1-4 bins, 5 objectives, copies (default, 1, 2, per item 0/1/2), weights (none, all 1, all "
            "equal, positive integers), a constraint smallest==c / largest<=c / smallest>=c with c at the attainable values +-1, occasionally a "
            "tiny time limit. Each name must be placed exactly `copies` times, sums must describe bins and be non-decreasing (no / equal weights), "
            "the constraint must hold, the objective on (sum_i / weight_i) must equal the optimum over all feasible assignments, equal weights "
            "must leave the plain optimum, an infeasible request must raise ValueError and return nothing, and a tiny limit must end in "
            "ValueError or an optimal answer.",
            "The caller's constraints are checked on the sums themselves (in bin-index order), and equal weights are compared with the plain call also under constraints; with non-uniform weights the optimum is taken over assignments whose weight-normalised sums are non-decreasing in bin index; CBC inconsistencies told apart by re-solving with preprocessing off.",
            "DESIGN.md 6/C17"),
    "C18": ("exploration", "metamorphic property-based testing (permutation, scaling, zero padding) + differential testing of exact algorithms against each other beyond the oracle's size",
            "Pairs (input, transformed input): a generated permutation must leave the sorted sum vector of the sorting heuristics and the optimal "
            "value of the exact algorithms unchanged; scaling values and bin size by 2, 3, 7, 10, 2^10 must scale the heuristics' sums (incl. "
            "first fit and best fit) and the exact optimal values by the same factor (multifit: powers of two); inserting 1-3 zero-valued items "
            "must leave every exact optimum unchanged. Agreement: on 11-13 (thorough 11-16) items and 2-5 bins every exact algorithm that "
            "finishes within a kill-timeout in a forked child must report the same optimal difference (cg, dp, ilp also min-max and max-min) "
            "and greedy, kk and multifit may not beat them; value profiles include near-equal large values. Long searches: complete greedy on "
            "13-16 items with wide values must scale, must agree across its switch settings and bins-managers and with an independent "
            "subset-sum optimum for 2 and 3 bins.",
            "Exact algorithms compared on the optimal value only; agreement can show a violation but cannot certify optimality; timeouts are inconclusive.",
            "DESIGN.md 6/C18"),
    "C19": ("exploration", "property-based testing with an exception oracle (negative testing with a positive control)",
            "Valid packing inputs with 1-3 oversize items inserted at generated positions for all five packers x five input "
            "formats x all ten output types must raise ValueError; cbldm with exactly one invalid argument (bin count, "
            "negative item at a generated position, non-positive time limit, non-positive or non-integral cardinality bound) "
            "must raise ValueError; the sums-only manager's numitems must raise. Each refusal is paired with a control call "
            "without the invalid element that must be answered.",
            "Integral floats / numpy ints are not treated as invalid bounds.",
            "DESIGN.md 6/C19"),
}


def main():
    props = [json.loads(l) for l in open(os.path.join(HERE, "properties.jsonl"))]
    manifest = {
        "version": 1,
        "setup_cmd": "./setup.sh",
        "hooks": {
            "guard": "PRTPY_VERIF",
            "enable": "no source hooks exist: prtpy is pure Python and the checks import it straight from /repo's "
                      "working tree (PRTPY_VERIF=1 is exported by the checks but nothing in /repo reads it)",
            "baseline_off_cmd": BASELINE,
            "source_commits": [],
            "add_only": True,
        },
        "engines": [
            {"name": "pbt", "path": "pbt/", "serves_properties": sorted(CLAIMS),
             "kind_free_text": "Hypothesis-driven generated-input search with explicit oracles (exhaustive optimum, "
                               "reference models, metamorphic relations, model-based state machines), "
                               "collect-then-minimise, bounded-exhaustive enumeration legs, sharded over 16 processes"},
        ],
        "checks": [],
        "not_applicable": [],
        "notes": "See DESIGN.md. ./check <ID> --tier quick|thorough [--seed N]; replay: ./check <ID> --replay <file>. "
                 "known_findings.txt lists recorded findings (known:) and repaired defects (fixed:).",
    }
    for p in props:
        pid = p["id"]
        if pid in CLAIMS:
            cat, tech, text, note, ref = CLAIMS[pid]
            manifest["checks"].append({
                "property_id": pid,
                "quick_cmd": f"./check {pid} --tier quick",
                "thorough_cmd": f"./check {pid} --tier thorough",
                "evidence_file": f"evidence/{pid}.json",
                "replay_cmd_template": f"./check {pid} --replay {{path}}",
                "engine": "pbt",
                "level_claimed": {"category": cat, "text": text, "design_ref": ref},
                "level_note": note,
                "technique": tech,
            })
        else:
            manifest["not_applicable"].append({
                "property_id": pid,
                "reason": "not claimed yet: its check is still being built in this round (the technique applies; "
                          "see DESIGN.md section 6)"})
    with open(os.path.join(HERE, "MANIFEST.json"), "w") as f:
        json.dump(manifest, f, indent=1)
    print("claimed:", sorted(CLAIMS), "unclaimed:", [x["property_id"] for x in manifest["not_applicable"]])


if __name__ == "__main__":
    main()
