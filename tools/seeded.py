#!/venv/bin/python
"""
Seeded breaking changes (written by independent sub-agents that saw only a property's text): confirm and run the checks.

    tools/seeded.py import <src dir with patch.diff, demo.py, meta.json> <id>      copy into seeded/<id>/
    tools/seeded.py verify <id> [--props C03,C04] [--tier quick] [--no-suite]

verify, in a scratch copy of /repo's working tree under /dev/shm (removed afterwards):
  1. demo.py passes on the unchanged copy               2. patch applies
  3. the repository's stable tests still pass            4. demo.py fails on the patched copy
  5. the named checks are run against the patched copy (VERIF_REPO, evidence redirected with VERIF_OUT)
and records all of it under "confirmed" in seeded/<id>/meta.json.
"""
import json
import os
import shutil
import subprocess
import sys
import tempfile
import time

HERE = os.path.dirname(os.path.dirname(os.path.abspath(__file__)))
sys.path.insert(0, HERE)
from tools import mutants          # noqa: E402

SEEDED = os.path.join(HERE, "seeded")


def run_demo(base, demo):
    env = dict(os.environ, PYTHONPATH=base, PYTHONHASHSEED="0")
    try:
        r = subprocess.run(["/venv/bin/python", demo], cwd=os.path.dirname(demo), env=env, stdout=subprocess.PIPE,
                           stderr=subprocess.STDOUT, text=True, timeout=600)
    except subprocess.TimeoutExpired:
        return 124, "timeout"
    return r.returncode, r.stdout.strip().splitlines()[-1][:300] if r.stdout.strip() else ""


def verify(sid, props, tier, suite=True):
    d = os.path.join(SEEDED, sid)
    meta = json.load(open(os.path.join(d, "meta.json")))
    props = props or meta.get("checks_expected") or [meta["property"]]
    base = mutants.make_copy("seed-" + sid)
    out = tempfile.mkdtemp(prefix="verif-out-", dir="/dev/shm")
    demo_dir = tempfile.mkdtemp(prefix="seed-demo-", dir="/dev/shm")     # outside the copy: pytest must not collect it
    demo = os.path.join(demo_dir, "demo.py")
    shutil.copy(os.path.join(d, "demo.py"), demo)
    conf = {"at": time.strftime("%Y-%m-%d %H:%M:%S"), "repo_head": subprocess.run(
        ["git", "-C", mutants.REPO, "rev-parse", "--short", "HEAD"], capture_output=True, text=True).stdout.strip()}
    try:
        rc, tail = run_demo(base, demo)
        conf["demo_on_unchanged_tree"] = {"exit": rc, "tail": tail}
        r = subprocess.run(["git", "apply", "--unsafe-paths", f"--directory={base}", os.path.join(d, "patch.diff")],
                           cwd="/", stdout=subprocess.PIPE, stderr=subprocess.STDOUT, text=True)
        if r.returncode != 0:
            r = subprocess.run(["patch", "-p1", "-d", base, "-i", os.path.join(d, "patch.diff")],
                               stdout=subprocess.PIPE, stderr=subprocess.STDOUT, text=True)
        conf["patch_applies"] = r.returncode == 0
        if r.returncode != 0:
            conf["patch_error"] = r.stdout[-300:]
        else:
            rc, tail = run_demo(base, demo)
            conf["demo_on_patched_tree"] = {"exit": rc, "tail": tail}
            if suite:
                ok, missing = mutants.run_suite(base)
                conf["suite_still_passes"] = ok
                if not ok:
                    conf["suite_missing"] = missing[:5]
            conf["checks"] = mutants.run_checks(base, props, tier, out)
            conf["detected_by"] = [p for p, c in conf["checks"].items() if c["exit"] == 1 and c["violations"]]
            conf["tier"] = tier
    finally:
        shutil.rmtree(base, ignore_errors=True)
        shutil.rmtree(out, ignore_errors=True)
        shutil.rmtree(demo_dir, ignore_errors=True)
    conf["valid_seed"] = bool(conf.get("patch_applies") and conf.get("demo_on_unchanged_tree", {}).get("exit") == 0
                              and conf.get("demo_on_patched_tree", {}).get("exit") not in (0, None)
                              and conf.get("suite_still_passes", True))
    meta["confirmed"] = conf
    json.dump(meta, open(os.path.join(d, "meta.json"), "w"), indent=1)
    det = ",".join(conf.get("detected_by", [])) or "-"
    print(f"{sid:12s} valid_seed={conf['valid_seed']} detected_by={det} "
          + " ".join(f"{p}:{c['exit']}/{c['wall_s']}s" for p, c in conf.get("checks", {}).items()), flush=True)
    for p, c in conf.get("checks", {}).items():
        if c.get("first_bucket"):
            print(f"    {p}: {c['first_bucket'][:220]}", flush=True)
    return conf


def main(argv):
    if len(argv) >= 3 and argv[0] == "import":
        src, sid = argv[1], argv[2]
        dst = os.path.join(SEEDED, sid)
        os.makedirs(dst, exist_ok=True)
        for f in ("patch.diff", "demo.py", "meta.json"):
            shutil.copy(os.path.join(src, f), os.path.join(dst, f))
        print("imported", sid)
        return 0
    if argv and argv[0] == "verify":
        ids, props, tier, suite = [], None, "quick", True
        args = argv[1:]
        while args:
            a = args.pop(0)
            if a == "--props":
                props = args.pop(0).split(",")
            elif a == "--tier":
                tier = args.pop(0)
            elif a == "--no-suite":
                suite = False
            else:
                ids.append(a)
        for sid in ids or sorted(os.listdir(SEEDED)):
            verify(sid, props, tier, suite)
        return 0
    if argv and argv[0] == "table":
        print("| seed | property | what was changed | needs to manifest | valid | found at first attempt | detected by (quick tier, now) |")
        print("|---|---|---|---|---|---|---|")
        for sid in sorted(os.listdir(SEEDED)):
            mp = os.path.join(SEEDED, sid, "meta.json")
            if not os.path.exists(mp):
                continue
            m = json.load(open(mp))
            c = m.get("confirmed", {})
            det = ", ".join(c.get("detected_by", [])) or ("**missed**" if c else "not run")
            first = ""
            for p_, r in c.get("checks", {}).items():
                if r.get("first_bucket"):
                    first = r["first_bucket"].split(" case=")[0].replace("bucket=", "")
                    break
            def cut(t, n):
                t = " ".join(str(t).split())
                return (t[:n] + "...") if len(t) > n else t
            print(f"| {sid} | {m.get('property')} | {cut(m.get('summary', ''), 170)} | {cut(m.get('needs_to_manifest', ''), 150)} | "
                  f"{'yes' if c.get('valid_seed') else 'no longer (see note)' if m.get('note') else 'NO'} | {'yes' if m.get('detected_at_first_attempt', True) else 'no (12.3)'} | {det}{' (`' + first + '`)' if first else ''} |")
        return 0
    print(__doc__)
    return 2


if __name__ == "__main__":
    sys.exit(main(sys.argv[1:]))
