"""
Catalogue of hand-written mutants for the sensitivity self-test: one textual replacement each, written from the anchors of
the property it is meant to break.  `props` = the checks expected to kill it.
"""
O = "prtpy/objectives.py"
FF = "prtpy/packing/first_fit.py"
BF = "prtpy/packing/best_fit.py"
BC = "prtpy/packing/bin_completion.py"
BCU = "prtpy/packing/bin_completion_utils.py"
CB = "prtpy/partitioning/cbldm.py"
BN = "prtpy/binners.py"

MUTANTS = [
    # ---- C20 objectives
    dict(id="obj-maxmin-fast-last", props=["C20"], file=O, what="sorted fast path of max-min reads the last sum",
         old="return -sums[0] if are_sums_in_ascending_order else -min(sums)",
         new="return -sums[-1] if are_sums_in_ascending_order else -min(sums)"),
    dict(id="obj-minmax-fast-first", props=["C20"], file=O, what="sorted fast path of min-max reads the first sum",
         old="return sums[-1] if are_sums_in_ascending_order else max(sums)",
         new="return sums[0] if are_sums_in_ascending_order else max(sums)"),
    dict(id="obj-klargest-off-by-one", props=["C20"], file=O, what="k largest takes k-1... slice off by one",
         old="return sum(sorted_sums[-self.num_smallest_parts:])",
         new="return sum(sorted_sums[-self.num_smallest_parts+1:]) if self.num_smallest_parts>1 else sorted_sums[-1]"),
    dict(id="obj-ksmallest-from-1", props=["C20"], file=O, what="k smallest slice starts at 1 when k >= len",
         old="return -sum(sorted_sums[0: self.num_smallest_parts])",
         new="return -sum(sorted_sums[0: min(self.num_smallest_parts, len(sorted_sums)-1) or 1])"),
    dict(id="obj-weighted-multiplies", props=["C20", "C17"], file=O, what="weighted objective multiplies instead of divides",
         old="weighted_sums = [s / w for s, w in zip(sums, self.weights)]",
         new="weighted_sums = [s * w for s, w in zip(sums, self.weights)]"),
    dict(id="obj-weighted-accepts-sorted", props=["C20"], file=O, what="weighted objective silently accepts the sorted flag",
         old='            raise ValueError("are_sums_in_ascending_order parameter not supported")',
         new='            return -sums[0] / self.weights[0]'),
    dict(id="obj-diff-fast-abs", props=["C20"], file=O, what="difference fast path uses second-largest",
         old="return sums[-1] - sums[0] if are_sums_in_ascending_order else max(sums) - min(sums)",
         new="return sums[-1] - sums[0] if are_sums_in_ascending_order else max(sums) - sorted(sums)[min(1,len(sums)-1)] if len(sums)>3 else max(sums) - min(sums)"),
    # ---- C19 refusals
    dict(id="ff-oversize-tolerance", props=["C19", "C03"], file=FF, what="first fit tolerates an item one unit above the bin size",
         old="        if value>binsize:", new="        if value>binsize+1:"),
    dict(id="ff-oversize-only-when-bins-nonempty", props=["C19", "C03"], file=FF,
         what="first fit checks oversize only from the second item on",
         old="        if value>binsize:", new="        if value>binsize and binner.sums(bins)[0]>0:"),
    dict(id="bf-oversize-checks-name", props=["C19"], file=BF, what="best fit compares the item (name) instead of its value",
         old="        if value > binsize:", new="        if item > binsize:"),
    dict(id="bf-oversize-typeerror", props=["C19"], file=BF, what="best fit raises a different exception type",
         old='            raise ValueError(f"Item {item} has size {value} which is larger than the bin size {binsize}.")',
         new='            raise OverflowError(f"Item {item} has size {value} which is larger than the bin size {binsize}.")'),
    dict(id="bc-oversize-first-only", props=["C19", "C03"], file=BC, what="EQUIVALENT: bin completion skips its own scan for >= 2 items, but its BFD incumbent still raises ValueError",
         old="        if binner.valueof(item) > binsize:\n            raise ValueError(f\"Item {item} is not valid",
         new="        if binner.valueof(item) > binsize and len(items) < 2:\n            raise ValueError(f\"Item {item} is not valid"),
    dict(id="bc-oversize-filtered", props=["C19", "C03"], file=BC,
         what="bin completion checks only a lone item for oversize and filters oversize items out with the zeros",
         old="    items = [item for item in items if binner.valueof(item)!=0]",
         new="    items = [item for item in items if 0 < binner.valueof(item) <= binsize]",
         more=[dict(file=BC, old="        if binner.valueof(item) > binsize:\n            raise ValueError(f\"Item {item} is not valid",
                    new="        if binner.valueof(item) > binsize and len(items) < 2:\n            raise ValueError(f\"Item {item} is not valid")]),
    dict(id="cbldm-numbins-lt2", props=["C19"], file=CB, what="cbldm accepts more than two bins",
         old="    if numbins != 2:", new="    if numbins < 2:"),
    dict(id="cbldm-timelimit-zero-ok", props=["C19"], file=CB, what="cbldm accepts a zero time limit",
         old="    if time_limit <= 0:", new="    if time_limit < 0:"),
    dict(id="cbldm-bound-and", props=["C19"], file=CB, what="cbldm validates the bound with 'and'",
         old="    if partition_difference < 1 or not isinstance(partition_difference, int):",
         new="    if partition_difference < 1 and not isinstance(partition_difference, int):"),
    dict(id="cbldm-negative-first", props=["C19"], file=CB, what="cbldm tests the largest item for negativity",
         old="    if binner.valueof(sorted_items[-1])<0:", new="    if binner.valueof(sorted_items[0])<0:"),
    dict(id="sums-numitems-zero", props=["C19"], file=BN, what="sums-only manager's numitems invents 0",
         old='        raise NotImplementedError("Bins keeping sums do not keep track of the number of items.")',
         new='        return 0'),
    # ---- C12 / C11 cbldm
    dict(id="cbldm-leaf-len-strict", props=["C12"], file=CB, what="leaf accepted only if cardinality gap < bound",
         old="if new_len_delta <= self.len_delta and new_sum_delta < self.sum_delta:",
         new="if new_len_delta < self.len_delta and new_sum_delta < self.sum_delta:"),
    dict(id="cbldm-leaf-ignores-len", props=["C12"], file=CB, what="leaf accepted whatever its cardinality gap when it is perfect",
         old="if new_len_delta <= self.len_delta and new_sum_delta < self.sum_delta:",
         new="if (new_len_delta <= self.len_delta or new_sum_delta == 0) and new_sum_delta < self.sum_delta:"),
    dict(id="cbldm-card-prune-ge", props=["C12"], file=CB, what="cardinality prune fires on equality",
         old="if 2 * max_m - sum_mi > self.len_delta:", new="if 2 * max_m - sum_mi >= self.len_delta:"),
    dict(id="cbldm-sum-prune-minus2", props=["C12", "C11"], file=CB, what="sum prune too eager by 2",
         old="if 2 * max_x - sum_xi >= self.sum_delta:", new="if 2 * max_x - sum_xi >= self.sum_delta - 2:"),
    dict(id="cbldm-sum-prune-minus1", props=["C12"], file=CB, what="EQUIVALENT (parity): sum prune too eager by 1",
         old="if 2 * max_x - sum_xi >= self.sum_delta:", new="if 2 * max_x - sum_xi >= self.sum_delta - 1:"),
    dict(id="cbldm-optimal-at-2", props=["C12", "C11"], file=CB, what="search stops as soon as a difference <= 2 is found",
         old="                if self.sum_delta == 0:", new="                if self.sum_delta <= 2:"),
    dict(id="cbldm-split-equals-combine", props=["C12"], file=CB, what="the differencing branch pairs the same sides as the summing branch",
         old="(bin_index+section+1)%2)", new="(bin_index+section*2)%2)", nth=1),
    dict(id="cbldm-default-bound-n", props=["C12"], file=CB, what="explicit bound is widened by one",
         old="len_delta=partition_difference,", new="len_delta=partition_difference+(numitems%2==0 and partition_difference==1),"),
]
