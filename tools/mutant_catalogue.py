"""
Catalogue of hand-written mutants for the sensitivity self-test: one textual replacement each, written from the anchors of
the property it is meant to break.  `props` = the checks expected to kill it.
"""
O = "prtpy/objectives.py"

MUTANTS = [
    # ---- C20 objectives
    dict(id="obj-maxmin-fast-last", props=["C20"], file=O, what="sorted fast path of max-min reads the last sum",
         old="return -sums[0] if are_sums_in_ascending_order else -min(sums)",
         new="return -sums[-1] if are_sums_in_ascending_order else -min(sums)"),
    dict(id="obj-minmax-fast-first", props=["C20"], file=O, what="sorted fast path of min-max reads the first sum",
         old="return sums[-1] if are_sums_in_ascending_order else max(sums)",
         new="return sums[0] if are_sums_in_ascending_order else max(sums)"),
    dict(id="obj-klargest-off-by-one", props=["C20"], file=O, what="k largest takes k-1... slice off by one",
         old="return sum(sorted_sums[-self.num_smallest_parts:])",
         new="return sum(sorted_sums[-self.num_smallest_parts+1:]) if self.num_smallest_parts>1 else sorted_sums[-1]"),
    dict(id="obj-ksmallest-from-1", props=["C20"], file=O, what="k smallest slice starts at 1 when k >= len",
         old="return -sum(sorted_sums[0: self.num_smallest_parts])",
         new="return -sum(sorted_sums[0: min(self.num_smallest_parts, len(sorted_sums)-1) or 1])"),
    dict(id="obj-weighted-multiplies", props=["C20", "C17"], file=O, what="weighted objective multiplies instead of divides",
         old="weighted_sums = [s / w for s, w in zip(sums, self.weights)]",
         new="weighted_sums = [s * w for s, w in zip(sums, self.weights)]"),
    dict(id="obj-weighted-accepts-sorted", props=["C20"], file=O, what="weighted objective silently accepts the sorted flag",
         old='            raise ValueError("are_sums_in_ascending_order parameter not supported")',
         new='            return -sums[0] / self.weights[0]'),
    dict(id="obj-diff-fast-abs", props=["C20"], file=O, what="difference fast path uses second-largest",
         old="return sums[-1] - sums[0] if are_sums_in_ascending_order else max(sums) - min(sums)",
         new="return sums[-1] - sums[0] if are_sums_in_ascending_order else max(sums) - sorted(sums)[min(1,len(sums)-1)] if len(sums)>3 else max(sums) - min(sums)"),
]
