#!/venv/bin/python
"""
Sensitivity self-test (DESIGN.md section 9).  Not a registered check.

    tools/mutants.py list
    tools/mutants.py run [ID ...] [--props C01,C02] [--tier quick] [--suite] [--jobs N]
    tools/mutants.py patch <patch.diff> --props C03[,C04] [--suite]     (a seeded change kept under seeded/)

Each mutant is one textual replacement in a copy of /repo's working tree made under /dev/shm (never under /repo or
/verif, removed afterwards).  The named properties' checks are run against the copy (VERIF_REPO) with their evidence
and replay files redirected to a scratch directory (VERIF_OUT), so the evidence of the real tree is never touched.
A mutant is *killed* by a check that exits 1 with a VIOLATION line.  With --suite the repository's own stable tests
are also run on the copy: a mutant that fails them is not the kind of change the checks are for and is marked so.
"""
import json
import os
import shutil
import subprocess
import sys
import tempfile
import time

HERE = os.path.dirname(os.path.dirname(os.path.abspath(__file__)))
REPO = os.environ.get("VERIF_REPO", "/repo")
CHECK_TIMEOUT_S = 1500
sys.path.insert(0, HERE)

from tools.mutant_catalogue import MUTANTS          # noqa: E402


def make_copy(tag):
    base = tempfile.mkdtemp(prefix=f"prtpy-mut-{tag}-", dir="/dev/shm")
    for name in ("prtpy", "tests", "setup.py", "pyproject.toml", "README.md", "requirements.txt", "MANIFEST.in", "examples"):
        src = os.path.join(REPO, name)
        if os.path.isdir(src):
            shutil.copytree(src, os.path.join(base, name), ignore=shutil.ignore_patterns("__pycache__", "*.pyc"))
        elif os.path.exists(src):
            shutil.copy(src, os.path.join(base, name))
    return base


def apply_textual(base, m):
    for extra in m.get("more", []):
        apply_textual(base, dict(extra, id=m["id"]))
    path = os.path.join(base, m["file"])
    text = open(path).read()
    count = text.count(m["old"])
    nth = m.get("nth")
    if count == 0:
        raise SystemExit(f"mutant {m['id']}: pattern not found in {m['file']}: {m['old']!r}")
    if nth is None and count != 1:
        raise SystemExit(f"mutant {m['id']}: pattern occurs {count} times in {m['file']}; give nth")
    if nth is None:
        text = text.replace(m["old"], m["new"])
    else:
        parts = text.split(m["old"])
        text = m["old"].join(parts[:nth + 1]) + m["new"] + m["old"].join(parts[nth + 1:])
    open(path, "w").write(text)


def run_suite(base):
    """The repository's stable tests on the copy.  Returns (ok, summary)."""
    baseline = json.load(open("/root/.vp/BASELINE.json"))
    xml = os.path.join(base, "junit.xml")
    env = dict(os.environ, PYTHONPATH=base, PYTHONHASHSEED="0")
    subprocess.run(["/venv/bin/python", "-m", "pytest", "-q", "-p", "no:cacheprovider", "--timeout=900",
                    "--continue-on-collection-errors", f"--junitxml={xml}"], cwd=base, env=env,
                   stdout=subprocess.DEVNULL, stderr=subprocess.DEVNULL)
    import xml.etree.ElementTree as ET
    passed = set()
    for tc in ET.parse(xml).getroot().iter("testcase"):
        if not any(ch.tag in ("failure", "error", "skipped") for ch in tc):
            passed.add(f"{tc.get('classname')}::{tc.get('name')}")
    missing = [t for t in baseline["stable_pass"] if t not in passed]
    return (not missing), missing


def run_checks(base, props, tier, out):
    results = {}
    for prop in props:
        t0 = time.time()
        env = dict(os.environ, VERIF_REPO=base, VERIF_OUT=out, VERIF_TIER=tier)
        proc = subprocess.Popen([os.path.join(HERE, "check"), prop, "--tier", tier], cwd=HERE, env=env, stdout=subprocess.PIPE,
                                stderr=subprocess.STDOUT, text=True, start_new_session=True)
        try:
            stdout, _ = proc.communicate(timeout=CHECK_TIMEOUT_S)
        except subprocess.TimeoutExpired:
            import signal
            try:
                os.killpg(proc.pid, signal.SIGKILL)          # the check and all its worker processes
            except ProcessLookupError:
                pass
            proc.wait()
            results[prop] = {"exit": 3, "violations": 0, "wall_s": round(time.time() - t0, 1), "first_bucket": None,
                             "tail": f"check did not finish within {CHECK_TIMEOUT_S} s"}
            continue

        class R:
            pass
        r = R()
        r.stdout, r.returncode = stdout, proc.returncode
        vio = [l for l in r.stdout.splitlines() if l.startswith("VIOLATION")]
        buckets = [l.strip() for l in r.stdout.splitlines() if l.strip().startswith("bucket=")]
        results[prop] = {"exit": r.returncode, "violations": len(vio), "wall_s": round(time.time() - t0, 1),
                         "first_bucket": buckets[0][:300] if buckets else None,
                         "tail": r.stdout.strip().splitlines()[-1][:300] if r.stdout.strip() else ""}
    return results


def one_mutant(m, tier, suite, props_override=None):
    base = make_copy(m["id"])
    out = tempfile.mkdtemp(prefix="verif-out-", dir="/dev/shm")
    try:
        if "patch" in m:
            r = subprocess.run(["git", "apply", "--unsafe-paths", f"--directory={base}", os.path.abspath(m["patch"])],
                               cwd="/", stdout=subprocess.PIPE, stderr=subprocess.STDOUT, text=True)
            if r.returncode != 0:
                r = subprocess.run(["patch", "-p1", "-d", base, "-i", os.path.abspath(m["patch"])],
                                   stdout=subprocess.PIPE, stderr=subprocess.STDOUT, text=True)
                if r.returncode != 0:
                    return {"id": m["id"], "error": "patch does not apply: " + r.stdout[-300:]}
        else:
            apply_textual(base, m)
        res = {"id": m["id"], "what": m.get("what", ""), "file": m.get("file", m.get("patch"))}
        if suite:
            ok, missing = run_suite(base)
            res["suite_still_passes"] = ok
            if not ok:
                res["suite_missing"] = missing[:5]
        props = props_override or m["props"]
        res["checks"] = run_checks(base, props, tier, out)
        res["killed_by"] = [p for p, r in res["checks"].items() if r["exit"] == 1 and r["violations"]]
        res["harness_errors"] = [p for p, r in res["checks"].items() if r["exit"] not in (0, 1)]
        return res
    finally:
        shutil.rmtree(base, ignore_errors=True)
        shutil.rmtree(out, ignore_errors=True)


def main(argv):
    if not argv or argv[0] == "list":
        for m in MUTANTS:
            print(f"{m['id']:28s} {','.join(m['props']):14s} {m['file']}: {m.get('what', '')}")
        return 0
    tier, suite, props, ids, jobs = "quick", False, None, [], 1
    mode = argv[0]
    args = argv[1:]
    patch = None
    while args:
        a = args.pop(0)
        if a == "--tier":
            tier = args.pop(0)
        elif a == "--suite":
            suite = True
        elif a == "--props":
            props = args.pop(0).split(",")
        elif a == "--jobs":
            jobs = int(args.pop(0))
        elif mode == "patch" and patch is None:
            patch = a
        else:
            ids.append(a)
    if mode == "patch":
        todo = [{"id": os.path.basename(os.path.dirname(os.path.abspath(patch))) or "patch", "patch": patch, "props": props or []}]
    else:
        todo = [m for m in MUTANTS if (not ids or m["id"] in ids) and (props is None or set(props) & set(m["props"]))]
    results = []
    for m in todo:
        r = one_mutant(m, tier, suite, props)
        results.append(r)
        if "error" in r:
            print(f"{r['id']:28s} ERROR {r['error']}", flush=True)
            continue
        status = "KILLED by " + ",".join(r["killed_by"]) if r["killed_by"] else "SURVIVED"
        if r["harness_errors"]:
            status += " HARNESS-ERROR in " + ",".join(r["harness_errors"])
        if suite:
            status += "  [suite still passes]" if r["suite_still_passes"] else f"  [SUITE FAILS: {r.get('suite_missing')}]"
        times = " ".join(f"{p}:{c['wall_s']}s" for p, c in r["checks"].items())
        print(f"{r['id']:28s} {status}  ({times})", flush=True)
        for p, c in r["checks"].items():
            if c["first_bucket"]:
                print(f"    {p}: {c['first_bucket'][:200]}", flush=True)
    json.dump(results, open("/dev/shm/mutants-last.json", "w"), indent=1)
    survived = [r["id"] for r in results if "error" not in r and not r["killed_by"]]
    print(f"{len(results)} mutants, {len(results) - len(survived)} killed, survived: {survived}")
    return 0


if __name__ == "__main__":
    sys.exit(main(sys.argv[1:]))
