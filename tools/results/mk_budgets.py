import re, json, subprocess
def parse(path):
    out={}
    for l in open(path, errors='ignore'):
        m=re.match(r'(C\d\d) tier=thorough seed=1 evaluations=(\d+) executions=(\d+) distinct_nontrivial=(\d+) inconclusive=(\d+) violations=(\d+) wall=([\d.]+)s', l.strip())
        if m: out[m.group(1)]=tuple(int(x) for x in m.groups()[1:6])+(float(m.group(7)),)
    return out
r4=parse('/root/.vp/runs/4/log'); r7=parse('/root/.vp/runs/7/log'); r8=parse('/root/.vp/runs/8/log'); r11=parse('/root/.vp/runs/11/log')
rows=[]
for i in range(1,21):
    c=f"C{i:02d}"
    src,d = ("final code, idle machine",r11[c]) if c in r11 else ("near-final code, idle machine",r8[c]) if c in r8 else (("code of the last wave but one, machine shared with ten sub-agents",r7[c]) if c in r7 else ("fourth complete sweep, before the legs of waves 6-8 were added",r4[c]))
    rows.append((c,d,src))
quick={}
for l in open('/dev/shm/quick_times.txt'):
    m=re.match(r'(C\d\d) ([\d.]+)s (\d+)KB', l.strip())
    if m: quick[m.group(1)]=(float(m.group(2)), int(m.group(3)))
print("Thorough tier on 16 cores, seed 1, every run quiet (no VIOLATION, no harness error).  The rows come from the last runs of each check, because legs were added until late: see the last column.\n")
print("| check | evaluations | executions | distinct non-trivial | inconclusive | wall | measured on |")
print("|---|---|---|---|---|---|---|")
for c,d,src in rows:
    print(f"| {c} | {d[0]:,} | {d[1]:,} | {d[2]:,} | {d[3]} | {d[5]}s | {src} |")
tot=sum(v[0] for v in quick.values())
print(f"\nQuick tier on the idle machine, final code, all twenty quiet: " + ", ".join(f"{c} {quick[c][0]:.0f} s" for c in sorted(quick)) + f" - {tot/60:.1f} minutes in all; peak resident memory of the driver process below {max(v[1] for v in quick.values())//1000} MB (workers are capped at 6 GB of address space each).  Quick runs at seeds 2 and 3 and four complete earlier thorough sweeps (seeds 1) were quiet as well.")
print("\nThe four surviving mutants are the ones marked equivalent in the catalogue: bin completion's own oversize scan is redundant with the one in its best-fit-decreasing incumbent; CBLDM's sum prune `- 1` cannot fire for integers (parity, section 9); a tie-break by name between equal values in Karmarkar-Karp and a `<=` in complete greedy's incumbent test change which of several equally good partitions is returned, which no property forbids.  (The catalogue was last run in full before the seventh wave; the 164 seeded changes were all re-verified on the final code.)")
