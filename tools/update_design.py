#!/venv/bin/python
"""Refresh the generated tables of DESIGN.md (section 12) from seeded/*/meta.json and /dev/shm/mutants-last.json / a results file.
    tools/update_design.py [--mutants results.json] [--budgets budgets.txt]
"""
import io
import json
import os
import re
import subprocess
import sys
from contextlib import redirect_stdout

HERE = os.path.dirname(os.path.dirname(os.path.abspath(__file__)))
sys.path.insert(0, HERE)
from tools import seeded          # noqa: E402


def block(text, name, body):
    begin, end = f"<!-- {name}:BEGIN -->", f"<!-- {name}:END -->"
    if begin in text:
        return re.sub(re.escape(begin) + r".*?" + re.escape(end), lambda m: begin + "\n" + body + "\n" + end, text, flags=re.S)
    return text.replace(f"<!-- {name} -->", begin + "\n" + body + "\n" + end)


def main(argv):
    path = os.path.join(HERE, "DESIGN.md")
    text = open(path).read()
    buf = io.StringIO()
    with redirect_stdout(buf):
        seeded.main(["table"])
    rows = buf.getvalue().strip()
    metas = [json.load(open(os.path.join(seeded.SEEDED, d, "meta.json"))) for d in sorted(os.listdir(seeded.SEEDED))]
    valid = [m for m in metas if m.get("confirmed", {}).get("valid_seed")]
    caught = [m for m in valid if m["confirmed"].get("detected_by")]
    first = [m for m in metas if m.get("detected_at_first_attempt", True)]
    summary = (f"{len(metas)} seeded changes ({len(first)} of them detected the first time their check was run against them; the others led to "
               f"the changes of the machinery listed below), {len(valid)} confirmed as valid seeds (demo passes before, fails after, suite still passes), "
               f"{len(caught)} of them detected by the quick tier of the named check at the time of the last verification "
               f"(the column shows the first bucket reported).")
    text = block(text, "SEEDED-TABLE", summary + "\n\n" + rows)
    if "--mutants" in argv:
        res = json.load(open(argv[argv.index("--mutants") + 1]))
        lines = ["| mutant | what | killed by | note |", "|---|---|---|---|"]
        for r in res:
            if "error" in r:
                lines.append(f"| {r['id']} | - | - | {r['error'][:80]} |")
                continue
            note = "EQUIVALENT (see catalogue)" if "EQUIVALENT" in r.get("what", "") else ("" if r["killed_by"] else "**survived**")
            lines.append(f"| {r['id']} | {r.get('what', '')[:110]} | {', '.join(r['killed_by']) or '-'} | {note} |")
        body = "\n".join(lines)
        if "--budgets" in argv:
            body += "\n\n" + open(argv[argv.index("--budgets") + 1]).read().strip()
        text = block(text, "MUTANTS-AND-BUDGETS", body)
    open(path, "w").write(text)
    print(summary)


if __name__ == "__main__":
    main(sys.argv[1:])
