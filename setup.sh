#!/bin/sh
# MANIFEST.setup_cmd: make sure the framework's only third-party dependency (hypothesis) is importable by the
# interpreter that runs prtpy; install it offline from the wheelhouse into /verif/.deps otherwise.
set -e
cd "$(dirname "$0")"
PY=/venv/bin/python
if ! PYTHONPATH="$PWD/.deps" $PY -c "import hypothesis" 2>/dev/null; then
    $PY -m pip install --no-index --find-links /opt/veriftools/wheels --target "$PWD/.deps" hypothesis
fi
# atheris (coverage-guided fuzzing legs of the thorough tier); optional: the legs report "skipped" without it
if ! PYTHONPATH="$PWD/.deps" $PY -c "import atheris" 2>/dev/null; then
    $PY -m pip install --no-index --find-links /opt/veriftools/wheels --target "$PWD/.deps" atheris >/dev/null 2>&1 || echo "setup: atheris not installed (fuzz legs will be skipped)"
fi
PYTHONPATH="$PWD/.deps" $PY -c "import hypothesis, numpy, mip; print('setup ok: hypothesis', hypothesis.__version__)"
mkdir -p evidence replays
